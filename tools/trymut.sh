#!/bin/sh
# usage: trymut.sh <patch.diff> <checks...>   run quick checks against a scratch worktree of /repo with the patch applied
# (no confirmation steps; for hand-made probes). Prints exit code and violation count per check.
P=$1; shift
W=/tmp/trymut.$$
mkdir -p $W
WT=$W/repo
git -C /repo worktree add -q $WT HEAD || exit 3
( cd $WT && git apply $P ) || { echo APPLY-FAILED; git -C /repo worktree remove --force $WT; rm -rf $W; exit 3; }
( cd $WT && go build ./... ) || { echo BUILD-FAILED; git -C /repo worktree remove --force $WT; rm -rf $W; exit 3; }
if [ -n "$TRYMUT_SUITE" ]; then ( cd $WT && go test -vet=off -count=1 . >/dev/null 2>&1 ); echo "suite(root pkg) exit=$?"; fi
cp -r /verif/harness $W/harness
sed -i "s|=> /repo|=> $WT|" $W/harness/go.mod
mkdir -p $W/ev $W/replays
for c in "$@"; do
  SYMGO_HARNESS_DIR=$W/harness SYMGO_REPO_DIR=$WT SYMGO_TESTBIN=$W/harness.test SYMGO_EVIDENCE_DIR=$W/ev SYMGO_REPLAY_DIR=$W/replays \
    GOFLAGS=-mod=mod GOPROXY=off /verif/bin/symgo run -prop $c -tier quick > $W/check_$c.log 2>&1; RC=$?
  echo "$c: exit=$RC violations=$(grep -c '^VIOLATION' $W/check_$c.log) :: $(grep -A1 '^VIOLATION' $W/check_$c.log | sed -n 2p | cut -c1-200)"
done
git -C /repo worktree remove --force $WT
rm -rf $W
