#!/usr/bin/env python3
"""Regenerates /verif/MANIFEST.json from the table below (keeps it valid at all times)."""
import json, sys

LEVEL_NOTE = ("Trusted base: go/ssa (x/tools v0.29.0) as the semantics of the executed code; the symgo "
              "interpreter and its library models (DESIGN.md 2.3); z3 4.8.12. Bounded: nothing is claimed outside "
              "the bounds printed in the evidence file.")

claimed = {
 "C17": dict(
    text="Bounded symbolic execution of the real CleanPath from go/ssa: for every input of 0..N bytes over the full byte "
         "alphabet the solver shows, path class by path class, that the result equals an independent split/stack/join "
         "reference, that CleanPath is idempotent, and that no run-time panic is reachable. Exhaustive within the length "
         "bound (quick N=9, thorough N=10; plus 120..135-byte inputs with a symbolic window across the 128-byte buffer); nothing beyond it.",
    design="5 C17", technique="bounded symbolic execution of go/ssa + SMT (z3, QF_BV), differential against reference model, native replay"),
}

claimed["C10"] = dict(
    text="Bounded symbolic execution of the real Router.NewRoute/parseRoute from go/ssa against an independent three-valued "
         "recogniser of the documented grammar: for every pattern string up to N bytes over the full byte alphabet and three "
         "parameter-limit configurations, acceptance == grammar (outside the stated don't-care regions), rejection is "
         "ErrInvalidRoute, accessors are consistent, and no run-time panic is reachable. Exhaustive within the bound "
         "(quick N=6, thorough N=8). Every accepted pattern within the bound, and every accepted pattern assembled from a "
         "catalogue of segment forms (also after a neighbour route was registered and deleted), is routed as the only route "
         "and the reported parameters reproduce the request.",
    design="5 C10", technique="bounded symbolic execution of go/ssa + SMT (z3, QF_BV), differential against grammar recogniser, native replay")

claimed["C01"] = dict(
    text="Bounded symbolic execution of the real Router.Lookup (roots.lookup, lookupByDomain, lookupByPath, StripHostPort, "
         "net.SplitHostPort) from go/ssa on routers built by the real Handle code from a fixed corpus of route sets, against "
         "an independent uncompressed-trie priority-DFS reference: for every Host and every path (full byte alphabet) within "
         "the length bounds the selected route, the parameter names/order/values and substitute-back equality are those the "
         "documented rules prescribe, and no panic is reachable. Exhaustive over requests within the bound for each corpus "
         "set; route sets outside the corpus are outside the claim.",
    design="5 C01", technique="bounded symbolic execution of go/ssa + SMT (z3, QF_BV), differential against reference matcher, native replay")

T = "bounded symbolic execution of go/ssa + SMT (z3, QF_BV), differential against reference model, native replay"
claimed["C08"] = dict(
    text="All six obligations by bounded symbolic execution of the real code: (a) soundness, (b) completeness, (c) priority "
         "of the trailing-slash recommendation against the reference R-tsr (priority DFS on the slash-toggled path, host "
         "mode first); (d) dispatch in ServeHTTP for GET/POST/CONNECT under six ignore/redirect configurations (served by "
         "the route with the adjusted parameters / 301 or 308 only for clean paths / otherwise unmatched); (e) the Location "
         "header, resolved by an RFC 3986 section 5.2 reference resolver in the harness, has the same authority, no "
         "fragment, decodes to the slash-adjusted path and keeps the raw query, for every path byte incl. reserved "
         "characters; (f) an extra route matching neither the path nor its adjusted form changes nothing (A/B).",
    design="5 C08", technique=T)
claimed["C09"] = dict(
    text="Bounded symbolic execution of the real lookup (incl. netutil.StripHostPort and net.SplitHostPort from source) for "
         "every Host header up to N bytes: hostname routes match only the whole host after port / trailing-dot removal, label "
         "for label; path-only routes are the fallback; methods without hostname routes ignore the Host; Router.Reverse decides "
         "hosts exactly like the request lookup. Hosts with brackets "
         "or several colons are a stated don't-care region of the reference.",
    design="5 C09", technique=T)
claimed["C16"] = dict(
    text="Partial claim: for every matching request within the bounds, in steady state (same request served once before), no "
         "SSA instruction that can heap-allocate is executed between ServeHTTP entry and return (allocation-event monitor of "
         "the executor, decided per path class by the solver); every event found is re-measured natively with "
         "testing.AllocsPerRun before it is reported (one witness per distinct set of allocation sites), and sampled passing "
         "path classes are measured natively as 0 allocs; also through a writer offering the real server's optional interfaces. "
         "Compile-time allocation decisions (escape analysis) are outside what the solver sees.",
    design="5 C16", technique="bounded symbolic execution of go/ssa + SMT with an allocation-event monitor; native AllocsPerRun on witnesses")

claimed["C02"] = dict(
    text="Bounded symbolic execution of the real write path (Txn.Handle/HandleRoute/Update/UpdateRoute/Delete/Truncate, "
         "parseRoute, tXn.insert/update/remove/truncate, copy-on-write search, commit/abort) and of every reader (Has, Route, "
         "Len, Iter.All/Methods/Prefix/Routes) against a sequential map keyed by (method, pattern) with the documented error "
         "and wildcard-conflict rules: all histories of k writes over a pattern pool (each write direct, in a committed or in "
         "an aborted transaction) from several start sets, plus writes whose pattern is a fully symbolic byte string; after "
         "every step every reader must equal the model, errors must be the predicted sentinel (conflicts naming exactly the "
         "predicted routes), failed calls change nothing, and Reverse / Iter.Reverse of every observed view select the route "
         "the model prescribes. Histories are enumerated by the executor's decision search; "
         "pattern bytes are solver-quantified.",
    design="5 C02", technique=T)

claimed["C07"] = dict(
    text="A/B harness: router A (corpus set inserted in canonical order) versus router B (same set reached through one of 10 "
         "mutation histories executed by the real write path); bounded symbolic execution of Lookup and ServeHTTP on both for "
         "every Host/path within the bounds and four request methods shows identical route, parameters, trailing-slash "
         "outcome, status, handler kind and Allow header, and that the route serving a request is the object currently "
         "registered under its pattern.",
    design="5 C07", technique="bounded symbolic execution of go/ssa + SMT (z3, QF_BV), A/B differential between two real routers, native replay")
claimed["C11"] = dict(
    text="Bounded symbolic execution of the real ServeHTTP unmatched-request path on multi-method corpus routers against the "
         "reference (per-method R-match/R-tsr giving the set of methods that serve the host and path directly or by ignoring "
         "a trailing slash): handler kind (404/405/OPTIONS), scope, absence of route/pattern/parameters in the context and "
         "the Allow header (compared as a set) for every Host/path within the bounds, the target '*', five request methods "
         "and the four option combinations; also for percent-encoded requests (RawPath set) and with CONNECT among the "
         "methods; Allow never lists the request's own unserved method.",
    design="5 C11", technique=T)

claimed["C03"] = dict(
    text="Bounded symbolic execution of the real snapshot producers (Router.Iter, read-only Txn, Txn.Snapshot, Txn.Iter) and "
         "the real write path: a snapshot is observed (Iter.All/Prefix/Routes, Has, Route, Len, Lookup with parameters of a "
         "symbolic path), every object reachable from it is frozen in the executor, then every single later write of the "
         "op/pattern pool (direct, new txn, same txn; commit or abort) is executed and the snapshot is re-observed: equal "
         "observations, no value-changing store into a frozen object on any path, and the writer's own view equals the map "
         "model. The concurrent half is two thread programs (one published state per request / reader under every explored "
         "schedule) plus the frozen-object argument; see level_note.",
    design="5 C03", technique="bounded symbolic execution of go/ssa + SMT with a frozen-object monitor; differential before/after observation; two thread programs under the schedule explorer",
    note="Concurrent readers are covered by the argument that no store reaches a frozen object on any path, plus two thread programs (request vs a transaction moving a route between methods; reader vs a two-route transaction); other concurrent schedules are C05's obligation.")
claimed["C04"] = dict(
    text="Bounded symbolic execution of the real Txn/Updates code: for every transaction of k writes from the pool and each of "
         "five endings (Commit, Abort, managed commit, error after j ops, panic after j ops with j solver-chosen) the txn "
         "view equals the model including its own writes, the router view and fresh readers equal the pre-state until "
         "commit and the post-state after, aborted/failed/panicked transactions publish nothing, the settled txn refuses "
         "use, double Commit/Abort are no-ops, a new writer can lock (mutex model), read-only txns refuse writes "
         "without effect, and a snapshot of a write transaction refuses writes and settles without publishing or unlocking.",
    design="5 C04", technique=T)

claimed["C14"] = dict(
    text="Bounded symbolic execution of the real recorder (response_writer.go), io.CopyBuffer, the Context helpers and "
         "net/http.Redirect from go/ssa, reached through ServeHTTP, over every call sequence up to k with solver-chosen "
         "status codes, accepted byte counts and failure points, against ghost counters kept inside the underlying writer "
         "stub: Status, Size, Written, single final status, no header after body, byte order, capability delegation / "
         "ErrNotSupported, helper outputs (also over a preset Content-Type), Redirect code range, and A/B equality across "
         "capability variants; every sequence runs on a recorder recycled from earlier requests that wrote, flushed and hijacked.",
    design="5 C14", technique="bounded symbolic execution of go/ssa + SMT (z3, QF_BV) against ghost-state oracle in the environment stub; A/B across variants; native replay")

claimed["C15"] = dict(
    text="Bounded symbolic execution of the real recovery middleware (recovery, connIsBroken, request dump redaction loop, "
         "DefaultHandleRecovery) through ServeHTTP: every panic value kind x response progress x handler kind: escapes iff "
         "http.ErrAbortHandler (same value), 500 iff nothing written and not a broken connection, otherwise response "
         "untouched; one ERROR record naming route, parameters and request line; afterwards routes unchanged, requests "
         "served, writer lock free. Redaction: the header name is a symbolic byte string constrained byte-wise to a case "
         "variant of each credential header, so all 2^n spellings are decided by the solver at once. Managed transactions: a "
         "panic after every step of every short write sequence inside Updates (run by a handler under Recovery, or called "
         "directly) and inside View leaves routes, iteration, routing and later requests unchanged and the writer lock free.",
    design="5 C15", technique="bounded symbolic execution of go/ssa + SMT (z3, QF_BV) with a case-variant constraint over header-name bytes; native replay")
claimed["C20"] = dict(
    text="Bounded symbolic execution of the real Logger middleware (LoggerWithHandler, level, roundLatency, Context.ClientIP / "
         "RemoteIP) through ServeHTTP for every status code 100..999 (solver), implicit 200, redirects with and without "
         "Location, no write, superfluous WriteHeader calls after the response started, and panic, in five handler kinds and four resolver configurations: exactly one record after "
         "the handler, level by status class, status/method/host/path attributes, location rule, message rule; and A/B "
         "against the same router without the middleware (identical status, headers, bytes, panic value); plus two concurrent "
         "requests through the same logged route under the schedule explorer and the race monitor.",
    design="5 C20", technique=T)

claimed["C13"] = dict(
    text="Bounded symbolic execution of the real New / applyMiddleware / applyRouteMiddleware / NewRoute / Update and "
         "ServeHTTP dispatch: global middleware registered through WithMiddleware or WithMiddlewareFor with solver-chosen "
         "8-bit scope masks (and DefaultOptions), route middleware, all five handler kinds: the recorded trace equals "
         "[globals whose mask meets the kind, in order] ++ [route middleware], each once; Route.Handle bare, "
         "Route.HandleMiddleware route part only, Update replaces the route part, another route's creation changes nothing. "
         "The concurrent-creation clause is listed in level_note.",
    design="5 C13", technique=T, note="Concurrent creation of routes is decided by the C13Conc harness (two NewRoute threads, 0..4 global middleware) under the happens-before race monitor.")
claimed["C19"] = dict(
    text="Bounded symbolic execution of the real option closures, New, NewRoute, Handle, Update, Route accessors and "
         "Context.ClientIP: every option sequence within the bounds (booleans solver-chosen) folds to the documented state "
         "(last wins, one trailing-slash mode disables the other, nil per-route resolver means none, router-level nil "
         "ignored, annotations last value per key, route middleware exactly the ones given in the order given); invalid options give ErrInvalidConfig / ErrInvalidRoute and the crash "
         "monitor shows no reachable panic; ClientIP uses the route's resolver in route handlers and the router's elsewhere.",
    design="5 C19", technique=T)

claimed["C12"] = dict(
    text="Bounded symbolic execution of the real context life cycle (cTx.reset/resetWithWriter/resetNil, ServeHTTP, Lookup, "
         "CloneWith, Clone, Close, pool Get/Put, net/url query parsing and http.Request.Clone from source) over every "
         "sequence of k request shapes (incl. a hijacking handler, a direct match through an infix catch-all route, an "
         "iterator loop left early, nested Lookup / CloneWith inside handlers) and every choice of pooled context: each getter observed in a handler is the "
         "documented function of the current request (distinct tokens per request in every field), and clones re-read "
         "after later requests still show their own request. Sequential histories only; see level_note.",
    design="5 C12", technique="bounded symbolic execution of go/ssa + SMT; exhaustive shape sequences x pool choices by decision search; native replay",
    note="Concurrent requests are decided for two threads by the C12Conc harness under the race monitor; larger mixes are outside the bound.")

claimed["C18"] = dict(
    text="Three obligations by bounded symbolic execution of the real clientip package: (a) for every IPv4 and IPv6 address "
         "(symbolic 32/128-bit value through the real net.IPNet.Contains) membership in the default / optional range groups "
         "implies membership in an independent list of non-globally-routable ranges; (b) for header lists built from an "
         "entry catalogue, each strategy returns exactly the designated entry or an error (the non-private strategies under "
         "all 8 combinations of their range options); (c) for the rightmost "
         "strategies an arbitrary attacker prefix of n bytes (full alphabet, commas included) never changes the result. "
         "The crash monitor shows no reachable panic on these inputs. The IP-literal grammar itself is not symbolic.",
    design="5 C18", technique=T)

claimed["C06"] = dict(
    text="Bounded symbolic execution of every read entry point of the real code while the writer lock is held by a write "
         "transaction parked at each stage of its life, including readers (Lookup context, Iter, read-only Txn) obtained on a "
         "tree that was replaced before the writer parked, and a 30-level deep tree (mutex model with an owner): for every host, path and pattern within "
         "the bounds and every feasible path of the read code, no Lock on a held mutex is reached (it would be reported as "
         "a blocked-forever violation with its witness; a call that polls without end counts as blocked); conversely a second "
         "writer does block, and a write completes while readers are parked in the middle of their reads (also deleting the "
         "route whose handler is running). This is the behavioural "
         "counterpart, over all inputs in the bound, of the call-graph argument that read paths never take the writer lock; "
         "code no explored input reaches is not covered.",
    design="5 C06", technique="bounded symbolic execution of go/ssa + SMT with a mutex-owner (blocked) monitor; native replay by timeout")

claimed["C05"] = dict(
    text="Bounded exploration, by the symbolic executor's cooperative thread layer, of every interleaving at "
         "synchronisation granularity (mutex, atomic pointer, sync.Pool, thread start/exit) with a pre-emption bound, of "
         "small thread programs over the real code: writers against writers (different / same route, Update vs Delete), a "
         "two-route transaction against a reader, a writer against two requests, an aborted transaction against a reader, "
         "two requests, two NewRoute calls, Update+write-below and Truncate+refill transactions against a reader, Delete against "
         "Handle, a route moved between methods against a request, a transaction settling its own snapshot against a writer. On every schedule the observable obligations hold (no lost update, exactly one "
         "winner, all-or-nothing snapshots, monotonic reads, aborted writes invisible, no panic) and the vector-clock "
         "happens-before monitor reports no unordered conflicting access on any heap cell.",
    design="5 C05", technique="bounded symbolic execution of go/ssa with schedule choices as decision variables + happens-before race monitor; races confirmed with go test -race, schedule-dependent assertion failures replayed natively under the same schedule (instrumented overlay build)",
    note="Weakest fit of the technique: pattern choices and schedules are enumerated by the executor's decision search (the solver only keeps the path condition); thread counts, operation counts and pre-emptions are small and stated.")

reasons = {}

ids = [json.loads(l)["id"] for l in open("/verif/properties.jsonl")]
checks = []
for pid in ids:
    if pid not in claimed:
        continue
    c = claimed[pid]
    checks.append({
        "property_id": pid,
        "quick_cmd": f"./check {pid} quick",
        "thorough_cmd": f"./check {pid} thorough",
        "evidence_file": f"/verif/evidence/{pid}.json",
        "replay_cmd_template": "./check replay {path}",
        "engine": "symgo",
        "level_claimed": {"category": "model_checking", "text": c["text"], "design_ref": "DESIGN.md section " + c["design"]},
        "level_note": LEVEL_NOTE + " " + c.get("note", ""),
        "technique": c["technique"],
    })
na = [{"property_id": p, "reason": reasons.get(p, "check not built yet (work in progress; see DESIGN.md section 10)")} for p in ids if p not in claimed]
m = {
 "version": 1,
 "setup_cmd": "./check build",
 "hooks": {"guard": "verif", "enable": "no hooks: harnesses use the public API from /verif/harness (replace => /repo); nothing in /repo is guarded",
           "baseline_off_cmd": "cd /repo && go test -vet=off -count=1 -timeout 25m ./...", "source_commits": [], "add_only": True},
 "engines": [{"name": "symgo", "path": "/verif/engine", "serves_properties": [c["property_id"] for c in checks],
              "kind_free_text": "own bounded symbolic executor for Go over go/ssa; SMT-LIB2 to z3 through a persistent pipe; native replay of counterexamples"}],
 "checks": checks,
 "notes": "exit 0 = holds within bounds; 1 = VIOLATION replayed natively; 2 = inconclusive (never green). known findings: /verif/known_findings.json",
 "not_applicable": na,
}
json.dump(m, open("/verif/MANIFEST.json", "w"), indent=1)
print("claimed:", [c["property_id"] for c in checks])
