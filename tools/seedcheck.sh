#!/bin/sh
# usage: seedcheck.sh <srcdir> <k> <name> <checks...>
# 1. confirms in a scratch worktree that mutant<k>.diff compiles, passes the existing suite and fails its demo
#    (and that the demo passes on the clean tree); 2. applies it to /repo, runs the listed checks, reverts.
SRC=$1; K=$2; NAME=$3; shift 3
OUT=/verif/seeded/$NAME
mkdir -p $OUT
cp $SRC/mutant$K.diff $OUT/patch.diff
DEMO=$(cd $SRC && find . -name "zz_demo${K}_test.go" | head -1)
cp $SRC/$DEMO $OUT/demo_test.go.txt
WT=/tmp/seedchk.$$
git -C /repo worktree add -q $WT HEAD || exit 3
cp $SRC/$DEMO $WT/$DEMO
PKG=./$(dirname $DEMO)
( cd $WT && go test -vet=off -count=1 -run "TestMutantDemo${K}\$" $PKG >$OUT/clean_demo.log 2>&1 ); CLEAN=$?
( cd $WT && git apply $OUT/patch.diff ) || { echo "APPLY-FAILED"; git -C /repo worktree remove --force $WT; exit 3; }
( cd $WT && go build ./... >$OUT/build.log 2>&1 ); BUILD=$?
( cd $WT && go test -vet=off -count=1 -skip TestMutantDemo ./... >$OUT/suite.log 2>&1 ); SUITE=$?
( cd $WT && go test -vet=off -count=1 -run "TestMutantDemo${K}\$" $PKG >$OUT/mutant_demo.log 2>&1 ); MDEMO=$?
git -C /repo worktree remove --force $WT
echo "confirm: demo-on-clean=$CLEAN(0 wanted) build=$BUILD(0) suite=$SUITE(0) demo-on-mutant=$MDEMO(non-0 wanted)"
git -C /repo apply $OUT/patch.diff || { echo "APPLY-TO-REPO-FAILED"; exit 3; }
RES=""
for c in "$@"; do
  /verif/check $c quick > $OUT/check_$c.log 2>&1; RC=$?
  NV=$(grep -c '^VIOLATION' $OUT/check_$c.log)
  RES="$RES $c:exit=$RC,violations=$NV"
done
git -C /repo checkout -- .
echo "checks:$RES"
echo "confirm: demo-on-clean=$CLEAN build=$BUILD suite=$SUITE demo-on-mutant=$MDEMO checks:$RES" > $OUT/result.txt
