#!/bin/sh
# usage: seedcheck.sh <srcdir> <k> <name> <checks...>
# 1. confirms in a scratch worktree that mutant<k>.diff compiles, passes the existing suite and fails its demo
#    (and that the demo passes on the clean tree);
# 2. runs the listed quick checks against the patched scratch worktree (SYMGO_REPO_DIR / SYMGO_HARNESS_DIR point
#    the engine and the native replay build at scratch copies, so /repo itself is never modified and background
#    runs against /repo are not disturbed). With SEED_IN_REPO=1 the patch is applied to /repo itself instead
#    (git -C /repo apply ... ; checks; git -C /repo checkout -- .).
SRC=$1; K=$2; NAME=$3; shift 3
OUT=/verif/seeded/$NAME
mkdir -p $OUT
cp $SRC/mutant$K.diff $OUT/patch.diff
DEMO=$(cd $SRC && find . -name "zz_demo${K}_test.go" | head -1)
cp $SRC/$DEMO $OUT/demo_test.go.txt
W=/tmp/seedwork.$$
mkdir -p $W
WT=$W/repo
git -C /repo worktree add -q $WT HEAD || exit 3
cp $SRC/$DEMO $WT/$DEMO
PKG=./$(dirname $DEMO)
( cd $WT && go test -vet=off -count=1 -run "TestMutantDemo${K}\$" $PKG >$OUT/clean_demo.log 2>&1 ); CLEAN=$?
( cd $WT && git apply $OUT/patch.diff ) || { echo "APPLY-FAILED"; git -C /repo worktree remove --force $WT; rm -rf $W; exit 3; }
( cd $WT && go build ./... >/dev/null 2>&1 ); BUILD=$?
( cd $WT && go test -vet=off -count=1 -skip TestMutantDemo ./... >$OUT/suite.log 2>&1 ); SUITE=$?
( cd $WT && go test -vet=off -count=1 -run "TestMutantDemo${K}\$" $PKG >$OUT/mutant_demo.log 2>&1 ); MDEMO=$?
rm -f $WT/$DEMO
echo "confirm: demo-on-clean=$CLEAN(0 wanted) build=$BUILD(0) suite=$SUITE(0) demo-on-mutant=$MDEMO(non-0 wanted)"
RES=""
if [ -n "$SEED_IN_REPO" ]; then
  git -C /repo apply $OUT/patch.diff || { echo "APPLY-TO-REPO-FAILED"; exit 3; }
  for c in "$@"; do
    /verif/check $c quick > $W/check_$c.log 2>&1; RC=$?
    RES="$RES $c:exit=$RC,violations=$(grep -c '^VIOLATION' $W/check_$c.log)"
  done
  git -C /repo checkout -- .
else
  cp -r /verif/harness $W/harness
  sed -i "s|=> /repo|=> $WT|" $W/harness/go.mod
  sed -i "s|/repo/clientip|$WT/clientip|; s|/verif/harness/overlay|$W/harness/overlay|" $W/harness/overlay.json
  mkdir -p $W/ev $W/replays
  for c in "$@"; do
    SYMGO_HARNESS_DIR=$W/harness SYMGO_REPO_DIR=$WT SYMGO_TESTBIN=$W/harness.test SYMGO_EVIDENCE_DIR=$W/ev SYMGO_REPLAY_DIR=$W/replays \
      GOFLAGS=-mod=mod GOPROXY=off /verif/bin/symgo run -prop $c -tier quick > $W/check_$c.log 2>&1; RC=$?
    RES="$RES $c:exit=$RC,violations=$(grep -c '^VIOLATION' $W/check_$c.log)"
    grep -A1 '^VIOLATION' $W/check_$c.log | head -4 | cut -c1-400 > $OUT/first_violation_$c.txt
  done
fi
git -C /repo worktree remove --force $WT
rm -rf $W
echo "checks:$RES"
[ -f $OUT/result.txt ] && [ ! -f $OUT/first_result.txt ] && cp $OUT/result.txt $OUT/first_result.txt
echo "confirm: demo-on-clean=$CLEAN build=$BUILD suite=$SUITE demo-on-mutant=$MDEMO checks:$RES" > $OUT/result.txt
