package main

// Persistent SMT solver pipe (z3 -in / z3-new -in / cvc5 --incremental).

import (
	"bufio"
	"fmt"
	"io"
	"os"
	"os/exec"
	"strconv"
	"strings"
	"time"
)

type Solver struct {
	cmd      *exec.Cmd
	in       io.WriteCloser
	out      *bufio.Reader
	declared map[*Term]bool
	Queries  int
	Time     time.Duration
	Unknowns int
	Errors   int
	logw     io.Writer
	kind     string
	depth    int
	timeout  int
	scoped   [][]*Term
}

func solverArgs(kind string, timeoutMs int) []string {
	switch kind {
	case "z3":
		return []string{"/usr/bin/z3", "-in", "-t:" + strconv.Itoa(timeoutMs)}
	case "z3-new":
		return []string{"z3-new", "-in", "-t:" + strconv.Itoa(timeoutMs)}
	case "cvc5":
		return []string{"cvc5", "--incremental", "--produce-models", "--lang=smt2", "--tlimit-per=" + strconv.Itoa(timeoutMs)}
	}
	panic("unknown solver " + kind)
}

func NewSolver(kind string, timeoutMs int, logw io.Writer) (*Solver, error) {
	a := solverArgs(kind, timeoutMs)
	cmd := exec.Command(a[0], a[1:]...)
	in, err := cmd.StdinPipe()
	if err != nil {
		return nil, err
	}
	out, err := cmd.StdoutPipe()
	if err != nil {
		return nil, err
	}
	cmd.Stderr = os.Stderr
	if err := cmd.Start(); err != nil {
		return nil, err
	}
	s := &Solver{cmd: cmd, in: in, out: bufio.NewReader(out), declared: map[*Term]bool{}, logw: logw, kind: kind, timeout: timeoutMs}
	s.send("(set-option :print-success false)\n(set-logic QF_BV)\n")
	return s, nil
}

func (s *Solver) Close() {
	s.in.Close()
	s.cmd.Wait()
}

func (s *Solver) send(str string) {
	if s.logw != nil {
		io.WriteString(s.logw, str)
	}
	io.WriteString(s.in, str)
}

// Reset drops all assertions and declarations.
func (s *Solver) Reset() {
	s.send("(reset)\n(set-option :print-success false)\n(set-logic QF_BV)\n")
	s.declared = map[*Term]bool{}
	s.depth = 0
}

func (s *Solver) declare(t *Term) {
	var vs []*Term
	t.Vars(map[*Term]bool{}, &vs)
	for _, v := range vs {
		if s.declared[v] {
			continue
		}
		s.declared[v] = true
		// declarations are global: emitted at depth 0 semantics is required; z3 pops declarations
		// made inside a push scope, so we track them per depth.
		if v.w == 0 {
			s.send(fmt.Sprintf("(declare-const %s Bool)\n", v.name))
		} else {
			s.send(fmt.Sprintf("(declare-const %s (_ BitVec %d))\n", v.name, v.w))
		}
		if s.depth > 0 {
			s.scoped[len(s.scoped)-1] = append(s.scoped[len(s.scoped)-1], v)
		}
	}
}

func (s *Solver) Push() {
	s.send("(push 1)\n")
	s.depth++
	s.scoped = append(s.scoped, nil)
}

func (s *Solver) Pop() {
	s.send("(pop 1)\n")
	s.depth--
	for _, v := range s.scoped[len(s.scoped)-1] {
		delete(s.declared, v)
	}
	s.scoped = s.scoped[:len(s.scoped)-1]
}

func (s *Solver) Assert(t *Term) {
	s.declare(t)
	var sb strings.Builder
	sb.WriteString("(assert ")
	t.SMT(&sb)
	sb.WriteString(")\n")
	s.send(sb.String())
}

type SatResult int

const (
	Unsat SatResult = iota
	Sat
	Unknown
)

func (s *Solver) readLine() string {
	line, err := s.out.ReadString('\n')
	if err != nil {
		return "(error \"solver pipe: " + err.Error() + "\")"
	}
	return strings.TrimSpace(line)
}

// Check runs (check-sat) on the current assertion stack.
func (s *Solver) Check() SatResult {
	t0 := time.Now()
	s.send("(check-sat)\n")
	line := s.readLine()
	s.Queries++
	s.Time += time.Since(t0)
	switch line {
	case "sat":
		return Sat
	case "unsat":
		return Unsat
	}
	if strings.HasPrefix(line, "(error") {
		s.Errors++
		fmt.Fprintln(os.Stderr, "solver error:", line)
	} else {
		s.Unknowns++
	}
	return Unknown
}

// CheckWith checks the current stack plus one extra assertion, leaving the stack unchanged.
func (s *Solver) CheckWith(t *Term) SatResult {
	if t.IsTrue() {
		return s.Check()
	}
	if t.IsFalse() {
		return Unsat
	}
	s.Push()
	s.Assert(t)
	r := s.Check()
	s.Pop()
	return r
}

// Model returns values for vars after a Sat answer (must be called before the stack changes).
func (s *Solver) Model(vars []*Term) map[*Term]uint64 {
	m := map[*Term]uint64{}
	if len(vars) == 0 {
		return m
	}
	for _, v := range vars {
		s.declare(v)
	}
	var sb strings.Builder
	sb.WriteString("(get-value (")
	for _, v := range vars {
		sb.WriteString(v.name)
		sb.WriteByte(' ')
	}
	sb.WriteString("))\n")
	s.send(sb.String())
	// Response: ((a #x01) (b true) ...) possibly on several lines; read until parens balance.
	var resp strings.Builder
	depth := 0
	started := false
	for {
		line := s.readLine()
		resp.WriteString(line)
		resp.WriteByte(' ')
		for _, c := range line {
			if c == '(' {
				depth++
				started = true
			} else if c == ')' {
				depth--
			}
		}
		if started && depth <= 0 {
			break
		}
		if strings.HasPrefix(line, "(error") {
			s.Errors++
			return m
		}
	}
	toks := strings.Fields(strings.NewReplacer("(", " ", ")", " ").Replace(resp.String()))
	byName := map[string]*Term{}
	for _, v := range vars {
		byName[v.name] = v
	}
	for i := 0; i+1 < len(toks); i++ {
		v, ok := byName[toks[i]]
		if !ok {
			continue
		}
		val := toks[i+1]
		switch {
		case val == "true":
			m[v] = 1
		case val == "false":
			m[v] = 0
		case strings.HasPrefix(val, "#x"):
			u, _ := strconv.ParseUint(val[2:], 16, 64)
			m[v] = u
		case strings.HasPrefix(val, "#b"):
			u, _ := strconv.ParseUint(val[2:], 2, 64)
			m[v] = u
		case val == "_" && i+2 < len(toks) && strings.HasPrefix(toks[i+2], "bv"):
			u, _ := strconv.ParseUint(toks[i+2][2:], 10, 64)
			m[v] = u
		}
		i++
	}
	return m
}
