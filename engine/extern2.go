package main

// More library models: log/slog (record capture), time, net parsing helpers, httputil.DumpRequest.

import (
	"fmt"
	"go/token"
	"go/types"
	"net"
	"strings"

	"golang.org/x/tools/go/ssa"
)

// structField returns the cell of a named field of a struct value of static type t.
func structField(t types.Type, s structure, name string) *value {
	st := t.Underlying().(*types.Struct)
	for k := 0; k < st.NumFields(); k++ {
		if st.Field(k).Name() == name {
			return &s[k]
		}
	}
	panic("no field " + name + " in " + typeString(t))
}

func (i *Interp) slogValue(any iface, num int64) structure {
	return structure{array{}, num, any}
}

func (i *Interp) slogAttr(key value, v structure) structure {
	return structure{key, v}
}

type slogGroup struct {
	attrs []structure
}

// flattenAttrs converts slog.Attr structures into parallel key / value slices (groups are flattened
// with a "group." prefix).
func (i *Interp) flattenAttrs(prefix string, attrs []value, keys, vals *[]value) {
	for _, a := range attrs {
		as, ok := a.(structure)
		if !ok {
			continue
		}
		key := as[0]
		v := as[1].(structure)[2].(iface)
		if g, ok := v.v.(*native); ok {
			if sg, ok := g.v.(*slogGroup); ok {
				ks, _ := key.(string)
				var sub []value
				for _, x := range sg.attrs {
					sub = append(sub, x)
				}
				i.flattenAttrs(prefix+ks+".", sub, keys, vals)
				continue
			}
		}
		if prefix != "" {
			key = mkStr(append(strBytes(prefix), strBytes(key)...))
		}
		*keys = append(*keys, key)
		*vals = append(*vals, v)
	}
}

// argsToAttrs implements slog's args convention: Attr values, or alternating key/value pairs.
func (i *Interp) argsToAttrs(args []value) []value {
	var out []value
	attrT := i.namedType("log/slog", "Attr")
	for k := 0; k < len(args); k++ {
		f := args[k].(iface)
		if f.t != nil && types.Identical(f.t, attrT) {
			out = append(out, f.v)
			continue
		}
		if s, ok := f.v.(string); ok && f.t != nil && isStringType(f.t) && k+1 < len(args) {
			out = append(out, structure{s, structure(i.slogValue(args[k+1].(iface), 0))})
			k++
			continue
		}
		out = append(out, structure{"!BADKEY", structure(i.slogValue(f, 0))})
	}
	return out
}

// capture delivers one log record to the harness handler through its CaptureLog method.
func (i *Interp) slogCapture(fr *frame, logger *value, ctx value, level int64, msg value, attrs []value) {
	if logger == nil {
		i.rtPanic("invalid memory address or nil pointer dereference (nil *slog.Logger)")
	}
	h := (*logger).(structure)[0].(iface)
	if h.t == nil {
		i.rtPanic("nil slog.Handler")
	}
	if strings.Contains(typeString(h.t), "fox/internal/slogpretty") {
		return // the pretty console handler's output is not modelled (stated stub)
	}
	if hasMethod(h.t, "CaptureLog") == nil {
		i.unsupported("slog handler %s has no CaptureLog method (only capturing handlers are modelled)", typeString(h.t))
	}
	en, _ := i.callMethod(fr, h, "Enabled", ctx, level)
	if b, ok := en.(bool); ok && !b {
		return
	}
	var keys, vals []value
	i.flattenAttrs("", attrs, &keys, &vals)
	i.callMethod(fr, h, "CaptureLog", level, msg, keys, vals)
}

func init() {
	ext := externals
	strT := types.Typ[types.String]
	ext["log/slog.String"] = func(fr *frame, a []value) value {
		i := fr.i
		return i.slogAttr(a[0], i.slogValue(iface{t: strT, v: a[1]}, 0))
	}
	ext["log/slog.Int"] = func(fr *frame, a []value) value {
		i := fr.i
		return i.slogAttr(a[0], i.slogValue(iface{t: types.Typ[types.Int], v: a[1]}, 0))
	}
	ext["log/slog.Int64"] = ext["log/slog.Int"]
	ext["log/slog.Bool"] = func(fr *frame, a []value) value {
		i := fr.i
		return i.slogAttr(a[0], i.slogValue(iface{t: types.Typ[types.Bool], v: a[1]}, 0))
	}
	ext["log/slog.Duration"] = func(fr *frame, a []value) value {
		i := fr.i
		return i.slogAttr(a[0], i.slogValue(iface{t: i.namedType("time", "Duration"), v: a[1]}, 0))
	}
	ext["log/slog.Any"] = func(fr *frame, a []value) value {
		i := fr.i
		return i.slogAttr(a[0], i.slogValue(a[1].(iface), 0))
	}
	ext["log/slog.Group"] = func(fr *frame, a []value) value {
		i := fr.i
		g := &slogGroup{}
		for _, x := range i.argsToAttrs(i.sliceVals(a[1])) {
			g.attrs = append(g.attrs, x.(structure))
		}
		return i.slogAttr(a[0], i.slogValue(iface{t: types.Typ[types.UnsafePointer], v: &native{g}}, 0))
	}
	ext["(*log/slog.Logger).LogAttrs"] = func(fr *frame, a []value) value {
		i := fr.i
		lvl, ok := a[2].(int64)
		if !ok {
			lvl = sext(i.concretize(a[2].(*Term)), 64)
		}
		i.slogCapture(fr, a[0].(*value), a[1], lvl, a[3], i.sliceVals(a[4]))
		return nil
	}
	logAt := func(level int64) externalFn {
		return func(fr *frame, a []value) value {
			i := fr.i
			i.slogCapture(fr, a[0].(*value), iface{}, level, a[1], i.argsToAttrs(i.sliceVals(a[2])))
			return nil
		}
	}
	ext["(*log/slog.Logger).Error"] = logAt(8)
	ext["(*log/slog.Logger).Warn"] = logAt(4)
	ext["(*log/slog.Logger).Info"] = logAt(0)
	ext["(*log/slog.Logger).Debug"] = logAt(-4)

	// ---- reflect: just enough for reflect.TypeOf(x).Comparable()
	ext["reflect.TypeOf"] = func(fr *frame, a []value) value {
		i := fr.i
		f := a[0].(iface)
		if f.t == nil {
			return iface{}
		}
		cell := new(value)
		*cell = &native{f.t}
		return iface{t: types.NewPointer(i.namedType("reflect", "rtype")), v: cell}
	}
	ext["(*reflect.rtype).Comparable"] = func(fr *frame, a []value) value {
		p := a[0].(*value)
		if p == nil {
			fr.i.rtPanic("invalid memory address or nil pointer dereference")
		}
		return types.Comparable((*p).(*native).v.(types.Type))
	}
	ext["(*reflect.rtype).String"] = func(fr *frame, a []value) value {
		p := a[0].(*value)
		return typeString((*p).(*native).v.(types.Type))
	}

	// ---- time: a stub clock -------------------------------------------------------------------
	ext["time.Now"] = func(fr *frame, a []value) value {
		return zero(fr.i.namedType("time", "Time"))
	}
	ext["time.Since"] = func(fr *frame, a []value) value { return int64(1500) }

	// ---- net helpers (native on concrete input) -------------------------------------------------
	ext["net.ParseIP"] = func(fr *frame, a []value) value {
		i := fr.i
		if ss, ok := a[0].(*sstr); ok {
			// attacker-controlled text reaching the IP parser (stated model, see C18 assumptions)
			legal := func(b *Term) *Term {
				in := func(lo, hi byte) *Term {
					return i.ts.And(i.ts.Cmp(OpBVUle, i.ts.Const(uint64(lo), 8), b), i.ts.Cmp(OpBVUle, b, i.ts.Const(uint64(hi), 8)))
				}
				return i.ts.Or(i.ts.Or(in('0', '9'), in('a', 'f')), i.ts.Or(in('A', 'F'), i.ts.Or(i.ts.Eq(b, i.ts.Const('.', 8)), i.ts.Eq(b, i.ts.Const(':', 8)))))
			}
			bad := i.ts.ff
			for _, b := range ss.b {
				bad = i.ts.Or(bad, i.ts.Not(legal(i.toTerm(b, 8))))
			}
			if len(ss.b) == 0 || i.decide(bad) {
				return []value(nil)
			}
			for _, lit := range []string{"::1", "1::1", "::1:1", "1::1:1", "6.6.6.6", "66.6.6.6", "66.66.6.6", "2606::1", "::"} {
				if len(lit) != len(ss.b) {
					continue
				}
				eq := i.strEq(ss, lit)
				hit := false
				switch e := eq.(type) {
				case bool:
					hit = e
				case *Term:
					hit = i.decide(e)
				}
				if hit {
					ip := net.ParseIP(lit)
					out := make([]value, len(ip))
					for k, b := range ip {
						out[k] = int64(b)
					}
					return out
				}
			}
			panic(pathEnd{kind: "assume", msg: "attacker text made of IP-literal characters outside the modelled literals"})
		}
		ip := net.ParseIP(fr.i.cstr(a[0], "net.ParseIP"))
		if ip == nil {
			return []value(nil)
		}
		out := make([]value, len(ip))
		for k, b := range ip {
			out[k] = int64(b)
		}
		return out
	}
	ext["net.ParseCIDR"] = func(fr *frame, a []value) value {
		i := fr.i
		str := i.cstr(a[0], "net.ParseCIDR")
		ip, ipn, err := net.ParseCIDR(str)
		if err != nil {
			return tuple{[]value(nil), (*value)(nil), i.mkError(fr, "invalid CIDR address: "+str)}
		}
		bs := func(b []byte) []value {
			out := make([]value, len(b))
			for k, x := range b {
				out[k] = int64(x)
			}
			return out
		}
		cell := new(value)
		*cell = structure{bs(ipn.IP), bs(ipn.Mask)}
		return tuple{bs(ip), cell, iface{}}
	}
	ext["net.CIDRMask"] = func(fr *frame, a []value) value {
		i := fr.i
		m := net.CIDRMask(i.cint(a[0], "ones"), i.cint(a[1], "bits"))
		if m == nil {
			return []value(nil)
		}
		out := make([]value, len(m))
		for k, x := range m {
			out[k] = int64(x)
		}
		return out
	}
	ext["(*net.IPAddr).String"] = func(fr *frame, a []value) value {
		i := fr.i
		p := a[0].(*value)
		if p == nil {
			return "<nil>"
		}
		s := (*p).(structure)
		ipv := i.sliceVals(s[0])
		ip := make(net.IP, len(ipv))
		for k, b := range ipv {
			c, ok := b.(int64)
			if !ok {
				i.unsupported("IPAddr.String on symbolic address")
			}
			ip[k] = byte(c)
		}
		zone := i.cstr(s[1], "IPAddr.Zone")
		return (&net.IPAddr{IP: ip, Zone: zone}).String()
	}

	// ---- httputil.DumpRequest(req, false): request line + Host + one "Key: value" line per stored
	// header value, keys as stored, CRLF separated, terminated by an empty line (stated contract).
	ext["net/http/httputil.DumpRequest"] = func(fr *frame, a []value) value {
		i := fr.i
		reqT := i.namedType("net/http", "Request")
		p := a[0].(*value)
		if p == nil {
			i.rtPanic("invalid memory address or nil pointer dereference")
		}
		req := (*p).(structure)
		var out []value
		add := func(v value) { out = append(out, strBytes(v)...) }
		add(*structField(reqT, req, "Method"))
		add(" ")
		up := (*structField(reqT, req, "URL")).(*value)
		if up != nil {
			urlT := i.namedType("net/url", "URL")
			u := (*up).(structure)
			add(*structField(urlT, u, "Path"))
			if q := *structField(urlT, u, "RawQuery"); strLen(q) > 0 {
				add("?")
				add(q)
			}
		}
		pmaj, _ := (*structField(reqT, req, "ProtoMajor")).(int64)
		pmin, _ := (*structField(reqT, req, "ProtoMinor")).(int64)
		add(fmt.Sprintf(" HTTP/%d.%d\r\nHost: ", pmaj, pmin))
		add(*structField(reqT, req, "Host"))
		add("\r\n")
		if h, ok := (*structField(reqT, req, "Header")).(*omap); ok && h != nil {
			for _, e := range h.ents {
				if e.deleted {
					continue
				}
				for _, v := range e.v.([]value) {
					add(e.k)
					add(": ")
					add(v)
					add("\r\n")
				}
			}
		}
		add("\r\n")
		res := make([]value, len(out))
		copy(res, out)
		return tuple{res, iface{}}
	}
	_ = token.NoPos
	_ = fmt.Sprint
	var _ *ssa.Function
}
