package main

// Package-level variables. Packages of the code under test are initialised by interpreting their
// init functions; globals of other (stdlib) packages are materialised lazily from a registry.
// Reading any other global of an uninitialised package is UNSUPPORTED (never silently zero).

import (
	"go/types"
	"os"
	"strings"

	"golang.org/x/tools/go/ssa"
)

type globalInit func(i *Interp, g *ssa.Global) value

var globalRegistry = map[string]globalInit{}

func sentinelError(msg string) globalInit {
	return func(i *Interp, g *ssa.Global) value {
		return i.mkError(nil, msg)
	}
}

func zeroOK(i *Interp, g *ssa.Global) value { return zero(deref(g.Type())) }

func init() {
	r := globalRegistry
	r["io.EOF"] = sentinelError("EOF")
	r["io.ErrShortWrite"] = sentinelError("short write")
	r["io.ErrShortBuffer"] = sentinelError("short buffer")
	r["io.ErrUnexpectedEOF"] = sentinelError("unexpected EOF")
	r["io.ErrNoProgress"] = sentinelError("multiple Read calls return no data or error")
	r["io.errInvalidWrite"] = sentinelError("invalid write result")
	r["io.ErrClosedPipe"] = sentinelError("io: read/write on closed pipe")
	r["net/http.ErrAbortHandler"] = sentinelError("net/http: abort Handler")
	r["net/http.ErrHijacked"] = sentinelError("http: connection has been hijacked")
	r["net/http.ErrBodyNotAllowed"] = sentinelError("http: request method or response status code does not allow body")
	r["net/http.ErrContentLength"] = sentinelError("http: wrote more than the declared Content-Length")
	r["errors.ErrUnsupported"] = sentinelError("unsupported operation")
	r["net/http.ErrNotSupported"] = func(i *Interp, g *ssa.Global) value {
		// &ProtocolError{"feature not supported"}
		t := i.namedType("net/http", "ProtocolError")
		cell := new(value)
		*cell = structure{"feature not supported"}
		_ = t
		return cell
	}
	r["os.Stderr"] = func(i *Interp, g *ssa.Global) value {
		cell := new(value)
		*cell = &native{os.Stderr}
		return cell
	}
	r["os.Stdout"] = r["os.Stderr"]
	r["net/http.htmlReplacer"] = func(i *Interp, g *ssa.Global) value {
		cell := new(value)
		*cell = &native{strings.NewReplacer("&", "&amp;", "<", "&lt;", ">", "&gt;", `"`, "&#34;", "'", "&#39;")}
		return cell
	}
	ipv := func(bs ...byte) globalInit {
		return func(i *Interp, g *ssa.Global) value {
			out := make([]value, len(bs))
			for k, b := range bs {
				out[k] = int64(b)
			}
			return out
		}
	}
	v4 := func(a, b, c, d byte) globalInit { return ipv(0, 0, 0, 0, 0, 0, 0, 0, 0, 0, 0xff, 0xff, a, b, c, d) }
	r["net.IPv4zero"] = v4(0, 0, 0, 0)
	r["net.IPv4bcast"] = v4(255, 255, 255, 255)
	r["net.IPv4allsys"] = v4(224, 0, 0, 1)
	r["net.IPv4allrouter"] = v4(224, 0, 0, 2)
	r["net.IPv6zero"] = ipv(0, 0, 0, 0, 0, 0, 0, 0, 0, 0, 0, 0, 0, 0, 0, 0)
	r["net.IPv6unspecified"] = ipv(0, 0, 0, 0, 0, 0, 0, 0, 0, 0, 0, 0, 0, 0, 0, 0)
	r["net.IPv6loopback"] = ipv(0, 0, 0, 0, 0, 0, 0, 0, 0, 0, 0, 0, 0, 0, 0, 1)
	r["math/bits.deBruijn64tab"] = nil // interpreted lazily below (array literal)
}

func (i *Interp) globalAddr(g *ssa.Global) *value {
	cell := i.globals[g]
	if cell == nil {
		panic("no cell for global " + g.String())
	}
	if g.Pkg == nil || i.initPkgs[g.Pkg] || i.globalReady[g] {
		return cell
	}
	key := g.Pkg.Pkg.Path() + "." + g.Name()
	if f, ok := globalRegistry[key]; ok && f != nil {
		*cell = f(i, g)
		i.globalReady[g] = true
		return cell
	}
	if v, ok := i.constGlobal(g); ok {
		*cell = v
		i.globalReady[g] = true
		return cell
	}
	i.unsupported("global %s of a package whose initialiser is not interpreted", key)
	return nil
}

// constGlobal evaluates simple initialisers found in the package init function: a single store of a
// constant, or of an array/slice/struct composite built only from constants.
func (i *Interp) constGlobal(g *ssa.Global) (value, bool) {
	initFn := g.Pkg.Func("init")
	if initFn == nil {
		return nil, false
	}
	// find stores whose address is g or an element/field address rooted at g
	var stores []*ssa.Store
	okAll := true
	rootOf := func(a ssa.Value) (ssa.Value, bool) {
		for {
			switch x := a.(type) {
			case *ssa.Global:
				return x, true
			case *ssa.IndexAddr:
				if _, c := x.Index.(*ssa.Const); !c {
					return nil, false
				}
				a = x.X
			case *ssa.FieldAddr:
				a = x.X
			default:
				return nil, false
			}
		}
	}
	for _, b := range initFn.Blocks {
		for _, in := range b.Instrs {
			st, ok := in.(*ssa.Store)
			if !ok {
				continue
			}
			root, ok := rootOf(st.Addr)
			if !ok || root != g {
				continue
			}
			if _, isC := st.Val.(*ssa.Const); !isC {
				okAll = false
			}
			stores = append(stores, st)
		}
	}
	if !okAll {
		return nil, false
	}
	if len(stores) == 0 {
		// never assigned in init: statically zero (or initialised by the linker data section,
		// which go/ssa shows as constant stores above)
		switch deref(g.Type()).Underlying().(type) {
		case *types.Basic, *types.Array, *types.Struct:
			return zero(deref(g.Type())), true
		}
		return nil, false
	}
	v := zero(deref(g.Type()))
	cell := &v
	var addrOf func(a ssa.Value) *value
	addrOf = func(a ssa.Value) *value {
		switch x := a.(type) {
		case *ssa.Global:
			return cell
		case *ssa.IndexAddr:
			base := addrOf(x.X)
			k := int(x.Index.(*ssa.Const).Int64())
			return &(*base).(array)[k]
		case *ssa.FieldAddr:
			base := addrOf(x.X)
			return &(*base).(structure)[x.Field]
		}
		panic("addrOf")
	}
	for _, st := range stores {
		*addrOf(st.Addr) = constValue(st.Val.(*ssa.Const))
	}
	return v, true
}
