package main

import "fmt"

func rangeJobs(h string, key string, lo, hi int) []*Job {
	var js []*Job
	for n := lo; n <= hi; n++ {
		js = append(js, &Job{Harness: h, Params: map[string]int{key: n}})
	}
	return js
}

func init() {
	props["C17"] = &PropSpec{
		ID: "C17",
		Jobs: func(tier string) []*Job {
			hi := 9
			if tier == "thorough" {
				hi = 10
			}
			js := rangeJobs("C17Clean", "n", 0, hi)
			w := 3
			totals := []int{126, 128, 131}
			if tier == "thorough" {
				w = 5
				totals = []int{120, 126, 127, 128, 129, 135}
			}
			// the redirect guard: a trailing-slash redirect is only issued for paths already in canonical form
			for _, s := range []int{7, 18, 26} {
				maxlp := 4
				if tier == "thorough" {
					maxlp = 5
				}
				if s == 26 {
					maxlp = 7 // accepted static patterns that are not canonical (/n/./b/, /m/../d, /k/./e/)
				}
				for lp := 2; lp <= maxlp; lp++ {
					js = append(js, &Job{Harness: "C08Dispatch", Params: map[string]int{"set": s, "mode": 1, "lp": lp, "lq": 0, "raw": 0}})
				}
			}
			// request paths with empty segments (doubled final slash included): never canonical, never redirected
			for _, s := range []int{7, 18} {
				for lp := 3; lp <= 5; lp++ {
					js = append(js, &Job{Harness: "C08Dispatch", Params: map[string]int{"set": s, "mode": 1, "lp": lp, "lq": 0, "raw": 0, "empty": 1}})
				}
			}
			for _, total := range totals {
				for place := 0; place < 3; place++ {
					for filler := 0; filler < 3; filler++ {
						js = append(js, &Job{Harness: "C17Long", Params: map[string]int{"total": total, "w": w, "place": place, "filler": filler}})
					}
				}
			}
			return js
		},
		Bounds: func(tier string) string {
			hi := 9
			if tier == "thorough" {
				hi = 10
			}
			return fmt.Sprintf("every input string of 0..%d bytes over the full byte alphabet (256^n each), by solver; long inputs of 120..135 bytes (three concrete fillers) with a fully symbolic window of 3 (quick) / 5 (thorough) bytes at the start, middle or end, crossing the 128-byte stack buffer; redirect guard: two all-redirect routers x every path of 2..4 (quick) / 2..5 (thorough) bytes, and a router of accepted non-canonical static patterns (/n/./b/, /m/../d, /k/./e/) x every path of 2..7 bytes, and on the first two routers every path of 3..5 bytes that has an empty segment, x GET/POST/CONNECT (a redirect is issued only when the path equals the reference canonical form)", hi)
		},
		RequiredCovers: []string{"request path with an empty segment", "trailing-slash-in", "input longer than the stack buffer", "tsr redirected", "tsr neither ignored nor redirected: unmatched"},
	}
}

func init() {
	c10n := func(tier string) int {
		if tier == "thorough" {
			return 8
		}
		return 6
	}
	props["C10"] = &PropSpec{
		ID: "C10",
		Jobs: func(tier string) []*Job {
			var js []*Job
			for lim := 0; lim < 3; lim++ {
				for n := 0; n <= c10n(tier); n++ {
					if lim > 0 && n > c10n(tier)-1 {
						continue
					}
					js = append(js, &Job{Harness: "C10Parse", Params: map[string]int{"n": n, "limits": lim}})
				}
			}
			for n := 1; n <= c10n(tier); n++ {
				js = append(js, &Job{Harness: "C10Round", Params: map[string]int{"n": n}})
			}
			// hostnames around the 63-byte label / 255-byte total limits with a symbolic window
			maxW := 2
			if tier == "thorough" {
				maxW = 3
			}
			for _, nl := range []int{0, 3} {
				for l := 60; l <= 64; l++ {
					for w := 0; w <= maxW; w++ {
						js = append(js, &Job{Harness: "C10HostLimits", Params: map[string]int{"nl": nl, "l": l, "w": w}})
					}
				}
			}
			maxSeg := 3
			if tier == "thorough" {
				maxSeg = 4
			}
			for lim := 0; lim < 3; lim++ {
				for k := 0; k <= maxSeg; k++ {
					if lim > 0 && k == maxSeg {
						continue
					}
					js = append(js, &Job{Harness: "C10Segments", Params: map[string]int{"k": k, "limits": lim}})
				}
			}
			return js
		},
		Bounds: func(tier string) string {
			return fmt.Sprintf("C10(a): every pattern string of 0..%d bytes over the full byte alphabet with default limits, 0..%d bytes with (maxParams,maxKeyBytes) in {(1,1),(2,3)}; C10(b): every accepted pattern of 1..%d bytes as the only route, with every substitution of 1..2 bytes per named parameter and 1..3 bytes per catch-all (full alphabet minus the delimiters); plus patterns assembled from 14 host forms x up to 3 (quick) / 4 (thorough) segments out of 18 segment forms (valid and malformed wildcards, mid-segment forms, literal braces), optional trailing slash, three limit configurations; hostnames of 0 or 3 full 63-byte labels followed by a label of 60..64 letters and a fully symbolic window of 0..2 (thorough 0..3) bytes (the 63-byte label and 255-byte total limits); each accepted assembled pattern (default limits) is also routed as the only route with fixed substitution values after it was updated in place and a neighbour route extending its hostname or path was registered and deleted again, through Lookup and through ServeHTTP on contexts that last served the slash-toggled request (ignore-trailing-slash on)", c10n(tier), c10n(tier)-1, c10n(tier))
		},
		RequiredCovers: []string{"accepted", "rejected", "accepted with hostname", "accepted with wildcard", "dont-care region", "round trip with wildcards", "round trip with hostname", "round trip after a neighbour came and went", "round trip served after slash-toggled requests", "long hostname accepted", "long hostname rejected"},
		Assumptions: []string{
			"grammar don't-care regions (neither acceptance nor rejection asserted): '_' in a host label, an all-numeric last label beside non-numeric ones, '-' directly before a host {param}",
			"fmt.Errorf modelled (message opaque, %w operands kept); errors.Is modelled by walking Unwrap",
		},
	}
}

const nHandSets = 30

// mergeJobs concatenates job lists, dropping jobs that are already present.
func mergeJobs(lists ...[]*Job) []*Job {
	seen := map[string]bool{}
	var out []*Job
	for _, l := range lists {
		for _, j := range l {
			k := j.String()
			if !seen[k] {
				seen[k] = true
				out = append(out, j)
			}
		}
	}
	return out
}

func lookupJobs(h string, nsets, maxLh, maxLp int) []*Job {
	var js []*Job
	for s := 0; s < nsets; s++ {
		for lh := 0; lh <= maxLh; lh++ {
			for lp := 1; lp <= maxLp; lp++ {
				js = append(js, &Job{Harness: h, Params: map[string]int{"set": s, "lh": lh, "lp": lp}})
			}
		}
	}
	return js
}

func init() {
	props["C01"] = &PropSpec{
		ID: "C01",
		Jobs: func(tier string) []*Job {
			if tier == "thorough" {
				// everything the quick tier covers (paths of 7 bytes on the first sets), plus more sets and longer hosts
				js := mergeJobs(lookupJobs("C01Lookup", nHandSets+47, 3, 7), lookupJobs("C01Lookup", nHandSets+67, 4, 6))
				return append(js, lookupJobs("C01Agree", nHandSets+67, 3, 5)...)
			}
			return append(lookupJobs("C01Lookup", nHandSets+47, 3, 7), lookupJobs("C01Agree", nHandSets+47, 2, 5)...)
		},
		Bounds: func(tier string) string {
			if tier == "thorough" {
				return fmt.Sprint(nHandSets+67) + " corpus route sets x every Host of 0..4 bytes x every path of 1..6 bytes (on the first " + fmt.Sprint(nHandSets+47) + " sets with Host 0..3 also paths of 7 bytes; full byte alphabet, no empty segment), method GET, each answer re-checked three times on recycled contexts; entry-point agreement (ServeHTTP after three priming requests, Lookup, Reverse, Iter.Reverse, Txn read/write Lookup+Reverse) on the same sets with Host 0..3, path 1..5"
			}
			return fmt.Sprint(nHandSets+47) + " corpus route sets x every Host of 0..3 bytes x every path of 1..7 bytes (full byte alphabet, no empty segment), method GET, each answer re-checked three times on recycled contexts; entry-point agreement (ServeHTTP after three priming requests, Lookup, Reverse, Iter.Reverse, Txn read/write Lookup+Reverse) on the same sets with Host 0..2, path 1..5"
		},
		RequiredCovers: []string{"direct match", "no direct match", "matched via hostname", "one backtrack", "two backtracks", "infix catch-all matched", "lookup matched", "lookup tsr", "primed with an ignored trailing-slash match"},
	}
}

func init() {
	props["C08"] = &PropSpec{
		ID: "C08",
		Jobs: func(tier string) []*Job {
			var js []*Job
			dsets := []int{7, 8, 9, 15, 18}
			dlp, dlq := 4, 1
			isets, ilp := nHandSets+13, 5
			if tier == "thorough" {
				js = lookupJobs("C08Tsr", nHandSets+67, 4, 7)
				dsets = []int{0, 6, 7, 8, 9, 13, 15, 17, 18}
				dlp, dlq = 4, 2
				isets, ilp = nHandSets+23, 6
			} else {
				js = lookupJobs("C08Tsr", nHandSets+47, 3, 7)
			}
			for _, s := range dsets {
				for mode := 0; mode < 6; mode++ {
					for lp := 2; lp <= dlp; lp++ {
						for lq := 0; lq <= dlq; lq++ {
							if lq > 0 && lp > 4 && mode != 1 {
								continue
							}
							if tier != "thorough" && lp > 3 && (mode == 1 || mode == 3 || mode == 4 || mode == 5) && !(s == 7 && mode == 1 && lq == 0) {
								continue // redirect configurations fork on every escaping class: longer paths in thorough
							}
							js = append(js, &Job{Harness: "C08Dispatch", Params: map[string]int{"set": s, "mode": mode, "lp": lp, "lq": lq, "raw": 0}})
						}
					}
				}
			}
			// percent-encoded request paths (RawPath set): a %XX escape needs 3 bytes, so paths of 5..6 bytes
			for k, s := range dsets {
				for _, mode := range []int{0, 1} {
					js = append(js, &Job{Harness: "C08Dispatch", Params: map[string]int{"set": s, "mode": mode, "lp": 5, "lq": 0, "raw": 1}})
					if tier == "thorough" || k < 2 {
						js = append(js, &Job{Harness: "C08Dispatch", Params: map[string]int{"set": s, "mode": mode, "lp": 7, "lq": 0, "raw": 1}})
					}
					if tier == "thorough" {
						js = append(js, &Job{Harness: "C08Dispatch", Params: map[string]int{"set": s, "mode": mode, "lp": 6, "lq": 1, "raw": 1}})
					}
				}
			}
			for s := 0; s < isets; s++ {
				if s == 16 {
					continue
				}
				for x := 0; x < 9; x++ {
					for lp := 2; lp <= ilp; lp++ {
						js = append(js, &Job{Harness: "C08Irrelevant", Params: map[string]int{"set": s, "extra": x, "lh": 0, "lp": lp}})
					}
					js = append(js, &Job{Harness: "C08Irrelevant", Params: map[string]int{"set": s, "extra": x, "lh": 2, "lp": 3}})
				}
			}
			return js
		},
		Bounds: func(tier string) string {
			if tier == "thorough" {
				return "C08(a-c): " + fmt.Sprint(nHandSets+67) + " corpus route sets x every Host of 0..4 bytes x every path of 2..7 bytes (full byte alphabet, no empty segment), method GET; (d,e): 9 sets registered under GET/POST/CONNECT x 6 trailing-slash configurations (all ignore, all redirect, none, mixed per route, router-wide redirect with per-route ignore, router-wide ignore with per-route redirect) x every path of 2..4 bytes x every printable raw query of 0..2 bytes, Location resolved by an RFC 3986 reference resolver; (f): " + fmt.Sprint(nHandSets+23-1) + " sets x 9 extra routes x every path of 2..6 bytes (Host 0 and 2 bytes)"
			}
			return "C08(a-c): " + fmt.Sprint(nHandSets+47) + " corpus route sets x every Host of 0..3 bytes x every path of 2..7 bytes (full byte alphabet, no empty segment), method GET; (d,e): 5 sets registered under GET/POST/CONNECT x 6 trailing-slash configurations (incl. router-wide ignore with per-route redirect) x every path of 2..3 bytes (2..4 without redirect, and on one set with it) x every printable raw query of 0..1 bytes, Location resolved by an RFC 3986 reference resolver, plus percent-encoded requests (RawPath set, every valid raw path of 5 bytes and, on two sets, 7 bytes); (f): 33 sets x 9 extra routes x every path of 2..5 bytes (Host 0 and 2 bytes)"
		},
		RequiredCovers: []string{"tsr expected", "no route even after slash adjustment", "tsr expected under a matching host", "tsr ignored: served", "tsr redirected", "tsr but CONNECT: unmatched", "tsr neither ignored nor redirected: unmatched", "irrelevant route compared", "percent-encoded request path"},
	}
}

func init() {
	props["C16"] = &PropSpec{
		ID: "C16",
		Jobs: func(tier string) []*Job {
			js := lookupJobs("C16Alloc", nHandSets+47, 3, 6)
			if tier == "thorough" {
				js = lookupJobs("C16Alloc", nHandSets+107, 4, 7)
			}
			for _, s := range []int{1, 7, 13, 18} {
				js = append(js, &Job{Harness: "C16Alloc", Params: map[string]int{"set": s, "lh": 0, "lp": 6, "raw": 1}})
			}
			// a writer offering FlushError / Flush / ReadFrom like the real server's
			for _, s := range []int{0, 7, 10, 13} {
				js = append(js, &Job{Harness: "C16Alloc", Params: map[string]int{"set": s, "lh": 0, "lp": 4, "rich": 1}})
			}
			// the deep-alternatives set needs its 8-byte request to reach the bottom of the tree
			js = append(js, &Job{Harness: "C16Alloc", Params: map[string]int{"set": 25, "lh": 0, "lp": 7}}, &Job{Harness: "C16Alloc", Params: map[string]int{"set": 25, "lh": 0, "lp": 8}})
			return js
		},
		Bounds: func(tier string) string {
			if tier == "thorough" {
				return fmt.Sprint(nHandSets+107) + " corpus route sets (every route ignoring trailing slashes) x every Host of 0..4 bytes x every path of 1..7 bytes; plus percent-encoded requests (4 sets, 6 bytes) and 4 sets served through a writer offering FlushError/Flush/ReadFrom (paths of 4 bytes); each round = interleaved concrete requests of other shapes, then the request; warm-up = one full round"
			}
			return fmt.Sprint(nHandSets+47) + " corpus route sets (every route ignoring trailing slashes) x every Host of 0..3 bytes x every path of 1..6 bytes; plus percent-encoded requests (4 sets, 6 bytes), the deep-alternatives set with paths of 7..8 bytes, and 4 sets served through a writer offering FlushError/Flush/ReadFrom (paths of 4 bytes); each round = interleaved concrete requests of other shapes, then the request; warm-up = one full round"
		},
		RequiredCovers: []string{"matching request served", "percent-encoded matching request"},
		Assumptions: []string{
			"allocation = an executed SSA instruction that can heap-allocate (new/make/closure/non-pointer MakeInterface/append growth/string conversion or concatenation/sync.Pool.New/fmt); escape analysis of the gc compiler is not modelled: every reported event is re-measured natively with testing.AllocsPerRun before it is reported, and sampled passing paths are measured natively too",
			"sync.Pool modelled as a LIFO bag (no per-P caches, no GC clearing)",
		},
	}
	props["C09"] = &PropSpec{
		ID: "C09",
		Jobs: func(tier string) []*Job {
			var js []*Job
			nsets, maxLh, maxLp := nHandSets+47, 5, 3
			if tier == "thorough" {
				nsets, maxLh, maxLp = nHandSets+87, 6, 3
			}
			for s := 0; s < nsets; s++ {
				for lh := 0; lh <= maxLh; lh++ {
					for lp := 1; lp <= maxLp; lp++ {
						js = append(js, &Job{Harness: "C09Host", Params: map[string]int{"set": s, "lh": lh, "lp": lp, "hist": 0}})
						if lh >= 1 && lh <= 3 && lp <= 2 {
							js = append(js, &Job{Harness: "C09Host", Params: map[string]int{"set": s, "lh": lh, "lp": lp, "hist": 1}})
						}
					}
				}
			}
			return js
		},
		Bounds: func(tier string) string {
			if tier == "thorough" {
				return fmt.Sprint(nHandSets+87) + " corpus route sets (hostname and path-only) x every Host header of 0..6 bytes (ports, trailing dot, extra labels/characters, brackets) x every path of 1..3 bytes, each after three rounds of look-ups of every hostname route's own substituted request on the same pooled contexts; Lookup, Reverse, Txn.Lookup and Txn.Reverse"
			}
			return fmt.Sprint(nHandSets+47) + " corpus route sets (hostname and path-only) x every Host header of 0..5 bytes (ports, trailing dot, extra labels/characters, brackets) x every path of 1..3 bytes, each after three rounds of look-ups of every hostname route's own substituted request on the same pooled contexts; Lookup, Reverse, Txn.Lookup and Txn.Reverse; and the same routers after every hostname was extended by a label, registered and deleted again (Host 1..3, path 1..2)"
		},
		RequiredCovers: []string{"matched via hostname", "host ignored (no hostname routes)", "fallback to path-only", "host with port matched", "host with trailing dot matched"},
	}
}

func c02Jobs(tier string) []*Job {
	var js []*Job
	add := func(set, k, methods, symlen, pool int) {
		if !(k >= 2 && symlen == 0 && set > 0) {
			js = append(js, &Job{Harness: "C02History", Params: map[string]int{"set": set, "k": k, "methods": methods, "symlen": symlen, "pool": pool, "iter": 1}})
		}
		if k >= 2 && symlen == 0 {
			// the same histories without an iterator on the open transaction between the steps
			js = append(js, &Job{Harness: "C02History", Params: map[string]int{"set": set, "k": k, "methods": methods, "symlen": symlen, "pool": pool, "iter": 0}})
		}
	}
	starts := []int{-1, 0, 6, 11, 16, 17, 19}
	if tier == "thorough" {
		// everything of the quick tier, one more start set, three writes from the empty router, longer symbolic patterns
		starts = []int{-1, 0, 1, 6, 11, 16, 17, 19}
	}
	for _, s := range starts {
		if s == 16 {
			// 60-sibling fan-out: one write only (observations are quadratic in the number of routes)
			add(s, 1, 2, 0, 12)
			add(s, 1, 2, 1, 12)
		} else {
			pl := 8
			if s == 6 || s == 11 {
				pl = 6
			}
			add(s, 2, 2, 0, pl)
			maxn := 3
			if s <= 0 {
				maxn = 4
			}
			if tier == "thorough" && s == -1 {
				maxn = 5
				add(s, 3, 2, 0, 2)
			}
			for n := 1; n <= maxn; n++ {
				add(s, 1, 2, n, 12)
			}
		}
	}
	add(-1, 2, 2, 2, 8)
	add(0, 2, 2, 2, 4)
	// hostnames that are label-wise prefixes of each other (pool window 20..23), from the empty router
	kk := 2
	js = append(js, &Job{Harness: "C02History", Params: map[string]int{"set": -1, "k": kk, "methods": 2, "symlen": 0, "pool": 4, "poolfrom": 20, "iter": 1}})
	js = append(js, &Job{Harness: "C02History", Params: map[string]int{"set": -1, "k": kk, "methods": 2, "symlen": 0, "pool": 4, "poolfrom": 20, "iter": 0}})
	// a route registered on an existing branching node without a route, then writes below it (pool window 24..27, siblings-3 set)
	js = append(js, &Job{Harness: "C02History", Params: map[string]int{"set": 17, "k": kk, "methods": 1, "symlen": 0, "pool": 4, "poolfrom": 24, "iter": 0}})
	return js
}

func init() {
	props["C02"] = &PropSpec{
		ID:   "C02",
		Jobs: c02Jobs,
		Bounds: func(tier string) string {
			if tier == "thorough" {
				return "8 start sets (empty and hand-written corpus sets incl. hostnames and the 60-sibling fan-out) x histories of k<=2 writes (k=3 with a 2-entry pool from the empty router; Handle, HandleRoute, Update, UpdateRoute, Delete, Truncate(all), Truncate(method)) issued directly or in a committed/aborted transaction, methods {GET,FOO}, patterns from a 6..8-entry pool (and two 4-entry pools: hostnames that are label-wise prefixes of each other, from the empty router; a route on an existing branching node plus routes below it, from the siblings-3 set); plus a first write with a symbolic pattern of 1..3 arbitrary bytes (1..4 from the static-basic set, 1..5 from the empty router) and 2 bytes for k=2; every reader checked after every step, with and without an iterator on the open transaction between the steps"
			}
			return "7 start sets x histories of k<=2 writes (7 kinds) direct / committed txn / aborted txn, with and without an iterator on the open transaction between the steps, methods {GET,FOO}, 6..8-entry pattern pool (12 for k=1), and two 4-entry pools (hostnames that are label-wise prefixes of each other, from the empty router; a route on an existing branching node plus routes below it, from the siblings-3 set); plus a first write with a symbolic pattern of 1..4 arbitrary bytes (k=1; 1..3 on four of the sets) and 2 bytes (k=2); every reader (Has, Route, Len, Reverse, Iter.All/Methods/Prefix per method and over all methods/Routes/Reverse) checked after every step, on the router, on the open transaction and on a snapshot of it"
		},
		RequiredCovers: []string{"handle ok", "handle: ErrRouteExist", "handle: ErrRouteConflict", "handle: ErrInvalidRoute", "update ok", "update: ErrRouteNotFound", "delete ok", "delete: ErrRouteNotFound", "truncate all", "truncate method"},
		Assumptions:    []string{"grammar don't-care regions are skipped (see C10)", "regexp.MatchString on the (concrete) method is executed natively"},
	}
}

func init() {
	props["C07"] = &PropSpec{
		ID: "C07",
		Jobs: func(tier string) []*Job {
			nsets, maxLh, maxLp := nHandSets+23, 2, 5
			if tier == "thorough" {
				nsets, maxLh, maxLp = nHandSets+43, 2, 6
			}
			var js []*Job
			for s := 0; s < nsets; s++ {
				if s == 16 {
					continue // fan-out set: covered by C02/C01 (61 routes x 9 histories is slow to build)
				}
				for h := 0; h < 11; h++ {
					for lh := 0; lh <= maxLh; lh++ {
						for lp := 1; lp <= maxLp; lp++ {
							js = append(js, &Job{Harness: "C07Pair", Params: map[string]int{"set": s, "hist": h, "lh": lh, "lp": lp}})
						}
					}
				}
			}
			return js
		},
		Bounds: func(tier string) string {
			if tier == "thorough" {
				return fmt.Sprint(nHandSets+43-1) + " corpus route sets (routes alternately GET/POST) x 11 history shapes (an aborted caching transaction registering every unregistered prefix and routes right below it, every unregistered route prefix inserted and deleted again, reverse, interleaved, extras inserted+deleted after / before, update in place, delete+reinsert each, truncate+refill in one txn, aborted txn full of writes, delete all + reinsert reversed) x request method in {GET,POST,DELETE,OPTIONS} x every Host of 0..2 bytes x every path of 1..6 bytes; 405 and auto-OPTIONS enabled"
			}
			return fmt.Sprint(nHandSets+23-1) + " corpus route sets (routes alternately GET/POST) x 11 history shapes x request method in {GET,POST,DELETE,OPTIONS} x every Host of 0..2 bytes x every path of 1..5 bytes; 405 and auto-OPTIONS enabled"
		},
		RequiredCovers: []string{"both matched", "405 compared", "OPTIONS compared"},
		Assumptions:    []string{"no external oracle: router A (canonical insertion order) versus router B (history); the absolute correctness of A is C01/C08/C11's obligation"},
	}
}

func init() {
	props["C11"] = &PropSpec{
		ID: "C11",
		Jobs: func(tier string) []*Job {
			nsets, maxLh, maxLp := nHandSets+23, 2, 5
			if tier == "thorough" {
				nsets, maxLh, maxLp = nHandSets+63, 3, 6
			}
			var js []*Job
			for s := 0; s < nsets; s++ {
				if s == 16 {
					continue
				}
				for o := 0; o < 4; o++ {
					for lh := 0; lh <= maxLh; lh++ {
						for lp := 0; lp <= maxLp; lp++ {
							if lp == 0 && lh > 0 {
								continue
							}
							js = append(js, &Job{Harness: "C11Serve", Params: map[string]int{"set": s, "opts": o, "lh": lh, "lp": lp, "redir": 0}})
							// redirecting routes (every third) fork on every escaping class of the Location: short paths, few sets
							if (s == 7 || s == 9) && lh == 0 && lp == 5 && o == 3 {
								// percent-encoded requests (a %XX escape in a parameter needs 6 bytes)
								js = append(js, &Job{Harness: "C11Serve", Params: map[string]int{"set": s, "opts": o, "lh": 0, "lp": 6, "redir": 0, "raw": 1}})
							}
							if (s == 7 || s == 9 || s == 18) && lh == 0 && lp >= 2 && lp <= 4 && (o == 1 || o == 3) {
								// the GET routes registered under CONNECT instead; CONNECT among the request methods
								js = append(js, &Job{Harness: "C11Serve", Params: map[string]int{"set": s, "opts": o, "lh": 0, "lp": lp, "redir": 0, "connect": 1}})
							}
							if (s == 7 || s == 9 || s == 18) && lh == 0 && lp >= 2 && lp <= 3 && (o == 0 || o == 3) {
								js = append(js, &Job{Harness: "C11Serve", Params: map[string]int{"set": s, "opts": o, "lh": lh, "lp": lp, "redir": 1}})
							}
						}
					}
				}
			}
			return js
		},
		Bounds: func(tier string) string {
			if tier == "thorough" {
				return fmt.Sprint(nHandSets+63) + " corpus route sets (routes spread over GET/POST/FOO/OPTIONS; per route: every third ignores trailing slashes; on three sets with paths of 2..3 bytes every third route redirects instead and a redirect-scope middleware observes the redirect handler's context) x the 4 combinations of method-not-allowed and auto-OPTIONS x request method in {GET,POST,FOO,OPTIONS,DELETE,CONNECT} x every Host of 0..3 bytes x every path of 1..6 bytes and the target '*'; on three sets also with the GET routes registered under CONNECT (a CONNECT route behind an ignored trailing slash may or may not be listed: the repository's tests list it, a CONNECT request never takes that action); percent-encoded requests on two sets"
			}
			return fmt.Sprint(nHandSets+23-1) + " corpus route sets (routes spread over GET/POST/FOO/OPTIONS; per route: every third ignores trailing slashes; on three sets with paths of 2..3 bytes every third route redirects instead and a redirect-scope middleware observes the redirect handler's context) x the 4 combinations of method-not-allowed and auto-OPTIONS x request method in {GET,POST,FOO,OPTIONS,DELETE,CONNECT} x every Host of 0..2 bytes x every path of 1..5 bytes and the target '*'; on three sets also with the GET routes registered under CONNECT (a CONNECT route behind an ignored trailing slash may or may not be listed: the repository's tests list it, a CONNECT request never takes that action); percent-encoded requests on two sets"
		},
		RequiredCovers: []string{"404", "405", "OPTIONS", "OPTIONS *", "served by a route", "primed with an ignored trailing-slash match", "redirect handler context observed", "percent-encoded request", "CONNECT route behind an ignored trailing slash (either)"},
	}
}

func init() {
	props["C03"] = &PropSpec{
		ID: "C03",
		Jobs: func(tier string) []*Job {
			var js []*Job
			sets := []int{0, 11, 17}
			ks := []int{1}
			lps := []int{3}
			pool := 6
			if tier == "thorough" {
				sets = []int{-1, 0, 11, 17}
				lps = []int{3}
				pool = 8
			}
			for _, s := range sets {
				for snap := 0; snap < 5; snap++ {
					for _, k := range ks {
						for _, lp := range lps {
							pl := pool
							if s == 17 && pl < 8 {
								pl = 8 // includes the siblings that sort before the registered ones
							}
							js = append(js, &Job{Harness: "C03Snapshot", Params: map[string]int{"set": s, "snap": snap, "k": k, "pool": pl, "lp": lp}})
						}
					}
					if snap <= 2 && (tier == "thorough" || s == 0 || s == 17) {
						// two later writes in one transaction (exercises the writable-node cache across writes)
						js = append(js, &Job{Harness: "C03Snapshot", Params: map[string]int{"set": s, "snap": snap, "k": 2, "pool": 4, "lp": 2}})
					}
				}
			}
			// writes beneath an infix catch-all node that has children (pool window 28..31, infix-children set)
			for snap := 0; snap < 5; snap++ {
				js = append(js, &Job{Harness: "C03Snapshot", Params: map[string]int{"set": 29, "snap": snap, "k": 1, "pool": 4, "poolfrom": 28, "lp": 2}})
			}
			// the state a request is being served from: one published state per request, under every schedule
			// (a route moved between methods in one transaction || a request whose answer depends on both
			// methods; a multi-route transaction || a reader)
			pre := 2
			if tier == "thorough" {
				pre = 3
			}
			for _, s := range []int{0, 10} {
				js = append(js, &Job{Harness: "C05Conc", Params: map[string]int{"set": s, "scenario": 9, "preempt": pre}})
				js = append(js, &Job{Harness: "C05Conc", Params: map[string]int{"set": s, "scenario": 3, "preempt": pre}})
			}
			return js
		},
		Bounds: func(tier string) string {
			if tier == "thorough" {
				return "concurrent half: 2 routers x {route moved from POST to GET in one Updates || GET request with 405 handling; two-route transaction || reader}, every sync-granularity schedule with <=3 pre-emptions; sequential half: 4 start sets x 5 snapshot kinds (Router.Iter, read-only Txn, Txn.Snapshot before/after a write, Txn.Iter after a write) x 1 later write (7 kinds, 8-pattern pool; 2 later writes with a 4-pattern pool for the first three kinds) issued directly / in a new txn / in the same txn, then commit or abort; snapshot re-observed (All, Prefix, Routes, Has, Route, Len, Lookup of every path of 2 and 4 bytes) after every step; frozen-object monitor on everything reachable from the snapshot"
			}
			return "concurrent half: 2 routers x {route moved from POST to GET in one Updates || GET request with 405 handling; two-route transaction || reader}, every sync-granularity schedule with <=2 pre-emptions; sequential half: 2 start sets x 5 snapshot kinds (Router.Iter, read-only Txn, Txn.Snapshot before/after a write, Txn.Iter after a write) x 1 later write (7 kinds, 6-pattern pool; 2 later writes with a 4-pattern pool for the first three snapshot kinds) issued directly / in a new txn / in the same txn, then commit or abort; snapshot re-observed (All, Prefix, Routes, Has, Route, Len, Lookup of every 3-byte path) after every step; frozen-object monitor on everything reachable from the snapshot"
		},
		RequiredCovers: []string{"commit after snapshot", "abort after snapshot", "handle ok", "delete ok", "update ok", "truncate all", "method move||request", "txn||reader"},
		Assumptions: []string{
			"the concurrent-reader half is mostly reduced to the sequential one: no store ever reaches an object reachable from a snapshot (frozen-object monitor), so a reader holding it is unaffected under any interleaving; in addition two thread programs check that a request / a reader is answered from one published state under every explored schedule; races are C05's obligation",
			"transactions touching more than the 4096-entry writable-node cache are outside the bound",
			"the state a request is being served from is covered through the tree pointer captured by Router.Iter (same iTree object)",
		},
	}
	props["C04"] = &PropSpec{
		ID: "C04",
		Jobs: func(tier string) []*Job {
			var js []*Job
			sets := []int{-1, 0, 6, 11, 17}
			if tier == "thorough" {
				sets = []int{-1, 0, 2, 6, 11, 17}
			}
			for _, s := range sets {
				js = append(js, &Job{Harness: "C04Txn", Params: map[string]int{"set": s, "k": 1, "pool": 12, "iter": 1}})
				if tier == "thorough" {
					js = append(js, &Job{Harness: "C04Txn", Params: map[string]int{"set": s, "k": 2, "pool": 4, "iter": 1}})
					pl2 := 6
					if s == 17 {
						pl2 = 8 // includes the siblings that sort before the registered ones
					}
					js = append(js, &Job{Harness: "C04Txn", Params: map[string]int{"set": s, "k": 2, "pool": pl2, "iter": 0}})
					if s <= 0 {
						js = append(js, &Job{Harness: "C04Txn", Params: map[string]int{"set": s, "k": 3, "pool": 2, "iter": 0}})
					}
				} else {
					if s == 0 {
						js = append(js, &Job{Harness: "C04Txn", Params: map[string]int{"set": s, "k": 2, "pool": 4, "iter": 1}})
					}
					if s == -1 || s == 0 || s == 17 {
						pl := 4
						if s == 17 {
							pl = 8
						}
						js = append(js, &Job{Harness: "C04Txn", Params: map[string]int{"set": s, "k": 2, "pool": pl, "iter": 0}})
					}
				}
			}
			// a snapshot of the write transaction taken after the writes, written to and settled (Commit / Abort)
			for _, s := range []int{-1, 0} {
				js = append(js, &Job{Harness: "C04Txn", Params: map[string]int{"set": s, "k": 1, "pool": 6, "iter": 0, "snap": 1}})
			}
			// writes beneath an infix catch-all node that has children (pool window 28..31, infix-children set)
			js = append(js, &Job{Harness: "C04Txn", Params: map[string]int{"set": 29, "k": 2, "pool": 4, "poolfrom": 28, "iter": 0}})
			// a route registered on an existing branching node without a route, then writes below it (pool window 24..27)
			js = append(js, &Job{Harness: "C04Txn", Params: map[string]int{"set": 17, "k": 2, "pool": 4, "poolfrom": 24, "iter": 0}})

			return js
		},
		Bounds: func(tier string) string {
			if tier == "thorough" {
				return "6 start sets x transactions of k<=3 writes (7 kinds, methods {GET,FOO}, pattern pool 12/4..6/2 for k=1/2/3, k=3 on two of the sets; on the siblings-3 set also k=2 over a pool holding a route on an existing branching node and routes below it) x 5 endings (Commit, Abort, Updates returning nil, Updates returning an error after j ops, Updates panicking after j ops; j symbolic in 0..k); on two start sets a snapshot of the write transaction is written to (must refuse) and settled by Commit / Abort (must neither publish nor release the writer lock); txn view, router view and a fresh read-only txn compared with the model after every step; settled-txn, double Commit/Abort, new-writer and read-only-writes obligations on every path"
			}
			return "4 start sets x transactions of k<=2 writes (7 kinds, methods {GET,FOO}, pattern pool 12 for k=1, 4..8 for k=2 on three start sets, with and without an iterator on the open transaction between steps; on the siblings-3 set also k=2 over a pool holding a route on an existing branching node and routes below it) x 5 endings (Commit, Abort, Updates returning nil, Updates returning an error after j ops, Updates panicking after j ops; j symbolic in 0..k); on two start sets a snapshot of the write transaction is written to (must refuse) and settled by Commit / Abort (must neither publish nor release the writer lock); txn view, router view and a fresh read-only txn compared with the model after every step; settled-txn, double Commit/Abort, new-writer and read-only-writes obligations on every path"
		},
		RequiredCovers: []string{"explicit commit", "explicit abort", "managed commit", "managed: error returned", "managed: panic", "new write transaction opened", "snapshot of a write transaction settled"},
		Assumptions: []string{
			"sync.Mutex modelled (Lock on a held mutex in a single-threaded harness is reported as a deadlock violation)",
			"'no reader observes part of a transaction' is checked sequentially between every two steps; concurrent readers are C05's obligation",
		},
	}
}

func init() {
	props["C14"] = &PropSpec{
		ID: "C14",
		Jobs: func(tier string) []*Job {
			var js []*Job
			maxK := 2
			if tier == "thorough" {
				maxK = 3
			}
			for k := 1; k <= maxK; k++ {
				for v := 0; v < 3; v++ {
					js = append(js, &Job{Harness: "C14Seq", Params: map[string]int{"k": k, "variant": v}})
				}
				js = append(js, &Job{Harness: "C14AB", Params: map[string]int{"k": k}})
			}
			for v := 0; v < 2; v++ {
				js = append(js, &Job{Harness: "C14Caps", Params: map[string]int{"variant": v}})
			}
			return js
		},
		Bounds: func(tier string) string {
			k := 2
			if tier == "thorough" {
				k = 3
			}
			return fmt.Sprintf("every sequence of k<=%d calls among WriteHeader(code in 100..999, solver-chosen), Write/WriteString of 0..3 bytes, ReadFrom of a 0..3-byte source ending in EOF or an error, FlushError; the underlying writer accepts a solver-chosen number of the offered bytes and fails or not (solver-chosen); underlying writer variants: plain, +ReaderFrom/FlushError/Pusher/Hijacker/deadlines/full-duplex, classic Flusher; A/B of plain vs rich on the same choices; each optional capability once with and without support; Blob/Stream with solver-chosen status, 0..3 bytes and optionally another Content-Type already set on the response; String with three formats (plain, %% without values, verbs with values); Redirect with every code 0..999; every sequence runs on a recorder recycled from three earlier requests that wrote, flushed and hijacked", k)
		},
		RequiredCovers: []string{"informational header", "short write", "ReadFrom", "ReadFrom of an empty source", "A/B compared", "redirect accepted", "redirect refused"},
		Assumptions: []string{
			"the underlying writer obeys the http.ResponseWriter contract deterministically: an explicit WriteHeader is forwarded as is; a Write without prior final header implies a forwarded 200 even for zero accepted bytes; its ReadFrom forwards the implicit 200 with the first byte it accepts and nothing for an empty source or when it accepts no byte (only under that contract can the recorder know what was sent)",
			"A/B excludes sequences containing FlushError (refused without flusher) and a non-empty ReadFrom of which no byte is accepted",
			"status codes below 100 are outside the bound (net/http panics on them); log.Printf and runtime.Callers are stubs; real net/http writers (chunking, HTTP/2) are outside the claim",
		},
	}
}

func init() {
	props["C20"] = &PropSpec{
		ID: "C20",
		Jobs: func(tier string) []*Job {
			var js []*Job
			for r := 0; r < 4; r++ {
				for k := 0; k < 5; k++ {
					js = append(js, &Job{Harness: "C20Log", Params: map[string]int{"resolver": r, "kind": k}})
				}
			}
			// two requests in flight through the same Logger (race monitor + per-record consistency)
			js = append(js, &Job{Harness: "C20Conc", Params: map[string]int{"preempt": 2}})
			// a request whose RawPath differs from its path (404 handler)
			js = append(js, &Job{Harness: "C20Log", Params: map[string]int{"resolver": 0, "kind": 1, "raw": 1}})
			return js
		},
		Bounds: func(tier string) string {
			return "4 resolver configurations (none, succeeding, failing, per-route override over a failing router-wide one) x 5 handler kinds (route, 404, 405, trailing-slash redirect, OPTIONS) x 10 handler behaviours (FlushError then WriteHeader(code) on a writer offering FlushError, WriteHeader(code) for every code 100..999 by solver, implicit 200 via Write, Redirect with Location, 301 without Location, nothing written, panic, any code with a Location header, Write then a superfluous WriteHeader(code), 201 then a superfluous WriteHeader(code)); a 404 request whose RawPath differs from its path; two concurrent requests (a served one and a 404) through the same Logger under the schedule explorer and the happens-before race monitor; A/B against the same router without the middleware"
		},
		RequiredCovers: []string{"2xx", "3xx", "4xx", "5xx", "location logged", "panic through logger", "request with RawPath", "concurrent requests through the Logger"},
		Assumptions: []string{
			"log/slog front end modelled: slog.String/Int/Duration/Any/Group and Logger.LogAttrs/Error hand level, message and attributes to the capturing handler (natively the same handler receives the real slog.Record); slog's own delivery is outside the claim",
			"time.Now/time.Since are stubs (fixed latency); the latency attribute is not asserted",
			"the level for a recorded status below 200 is not specified by the statement and not asserted",
		},
	}
}

func init() {
	props["C15"] = &PropSpec{
		ID: "C15",
		Jobs: func(tier string) []*Job {
			var js []*Job
			for _, k := range []int{0, 1, 2, 4} {
				js = append(js, &Job{Harness: "C15Panic", Params: map[string]int{"kind": k}})
			}
			for h := 0; h < 6; h++ {
				js = append(js, &Job{Harness: "C15Redact", Params: map[string]int{"header": h}})
			}
			maxK := 2
			if tier == "thorough" {
				maxK = 3
			}
			for k := 1; k <= maxK; k++ {
				js = append(js, &Job{Harness: "C15Txn", Params: map[string]int{"k": k}})
			}
			return js
		},
		Bounds: func(tier string) string {
			k := "2"
			if tier == "thorough" {
				k = "3"
			}
			return "12 panic values (error, wrapped and bare http.ErrAbortHandler, string, custom struct, *net.OpError over *os.SyscallError with 'broken pipe' / 'Connection reset by peer' / other, the same syscall error nested in a second OpError or wrapped with %w, a run-time error, OpError without SyscallError) x 6 response progress states (nothing, header, partial body, flushed on a writer offering FlushError, 101 Switching Protocols, body streamed with ReadFrom - with and without an underlying io.ReaderFrom - from a source that panics after its first chunk) x 4 handler kinds (route, 404, 405, OPTIONS); redaction: each of the six credential header names in every capitalisation (2^letters spellings per name, decided by the solver on a byte-wise case constraint); managed transactions: Updates run by a handler under Recovery, Updates called directly, View run by a handler, Router.Handle / Router.Update panicking while the route's middleware chain is built (inside a handler), with every sequence of 1.." + k + " writes out of 6 (Handle, Update, Delete, Truncate(GET), Truncate(), Handle under another method) and the panic after every step"
		},
		RequiredCovers: []string{"ErrAbortHandler re-raised", "500 written", "broken connection: nothing written", "panic after a flush", "spelled as in the list", "other capitalisation", "panic inside Updates in a handler", "panic inside a direct Updates", "panic inside View in a handler", "panic inside a single-operation write in a handler", "panic after a protocol switch", "panic in the source of a ReadFrom (copy loop)", "panic in the source of a ReadFrom (underlying io.ReaderFrom)"},
		Assumptions: []string{
			"httputil.DumpRequest modelled: request line, Host line, one 'Key: value' line per stored header value with keys as stored, CRLF separated (natively the real DumpRequest is used on replay)",
			"log/slog front end modelled as in C20; runtime.Callers returns no frames (stack text not asserted)",
			"strings.EqualFold modelled as ASCII case folding (non-ASCII symbolic bytes are UNSUPPORTED, not assumed away)",
		},
	}
}

func init() {
	props["C13"] = &PropSpec{
		ID: "C13",
		Jobs: func(tier string) []*Job {
			var js []*Job
			add := func(g, r, d int) {
				js = append(js, &Job{Harness: "C13Chain", Params: map[string]int{"g": g, "r": r, "defaults": d}})
			}
			for g := 0; g <= 2; g++ {
				for r := 0; r <= 2; r++ {
					add(g, r, 0)
				}
			}
			add(3, 1, 0)
			add(1, 1, 1)
			add(2, 0, 1)
			add(3, 1, 1)
			for g := 0; g <= 2; g++ {
				js = append(js, &Job{Harness: "C13Chain", Params: map[string]int{"g": g, "r": 1, "defaults": 0, "routeredir": 1}})
			}
			// the route under test has a catch-all in the middle of its pattern
			for g := 0; g <= 1; g++ {
				js = append(js, &Job{Harness: "C13Chain", Params: map[string]int{"g": g, "r": 2, "defaults": 0, "infix": 1}})
			}
			if tier == "thorough" {
				add(3, 2, 0)
				add(3, 0, 1)
				add(4, 0, 0)
			}
			js = append(js, threadJobs("C13")...)
			return js
		},
		Bounds: func(tier string) string {
			g := 3
			if tier == "thorough" {
				g = 4
			}
			return fmt.Sprintf("up to %d global middleware, each registered through WithMiddleware or WithMiddlewareFor with a solver-chosen 8-bit scope mask (all 256 values), optionally together with DefaultOptions (registered after up to 3 of them); trailing-slash redirect enabled router-wide or only on the route that needs it; up to 2 route middleware; all five handler kinds per configuration; Route.Handle / Route.HandleMiddleware; Update; a second route with other middleware; concurrent NewRoute (see threads)", g)
		},
		RequiredCovers: []string{"chains compared", "three or more global middleware", "concurrent NewRoute", "redirect enabled per route only", "route with an infix catch-all"},
		Assumptions: []string{
			"the console slog handler of DefaultOptions is a stub (its output is not modelled); Recovery and Logger themselves are executed",
		},
	}
	props["C19"] = &PropSpec{
		ID: "C19",
		Jobs: func(tier string) []*Job {
			var js []*Job
			add := func(g, r int) {
				js = append(js, &Job{Harness: "C19Options", Params: map[string]int{"g": g, "r": r}})
			}
			add(0, 1)
			add(1, 1)
			add(2, 1)
			add(1, 2)
			add(2, 2)
			add(3, 1)
			if tier == "thorough" {
				add(3, 2)
				add(1, 3)
				add(0, 4)
			}
			for k := 0; k < 6; k++ {
				js = append(js, &Job{Harness: "C19ClientIP", Params: map[string]int{"kind": k}})
			}
			// a route's middleware is the router's at creation plus its own, also when routes are created concurrently
			js = append(js, threadJobs("C13")...)
			return js
		},
		Bounds: func(tier string) string {
			b := "g<=3 global options and r<=2 route options"
			if tier == "thorough" {
				b = "g<=3 global options and r<=4 route options (g+r<=5)"
			}
			return "every sequence of " + b + " among ignore-trailing-slash(bool), redirect-trailing-slash(bool), client-IP resolver (A, B, nil), middleware (nil or not), annotation (13-key catalogue: ints, strings, structs, pointers, named types, slices, maps, funcs, comparable structs/arrays holding unhashable dynamic values, nil), booleans solver-chosen; creation through NewRoute, Handle and Update; nil handlers through every creation path; Context.ClientIP in the five handler kinds x router resolver present/absent x route resolver inherited/own/none. Accessor consistency for symbolic patterns is decided by C10. Two concurrent NewRoute calls with route middleware under the race monitor (0..4 global middleware, three registration APIs)."
		},
		RequiredCovers: []string{"two route middleware in order", "route options compared", "invalid route option rejected", "invalid global option rejected", "nil annotation key did not panic", "ClientIP in a route handler", "ClientIP in a non-route handler", "ClientIP in the redirect handler"},
		Assumptions:    []string{"maps with `any` keys follow the runtime's hashing rules in the executor (hash of unhashable type panics)", "acceptance of a nil annotation key is not specified (only that it must not panic)"},
	}
}

// threadJobs lists the concurrent harnesses of a property.
func threadJobs(prop string) []*Job {
	switch prop {
	case "C13":
		var js []*Job
		for g := 0; g <= 4; g++ {
			for api := 0; api < 3; api++ {
				js = append(js, &Job{Harness: "C13Conc", Params: map[string]int{"g": g, "api": api}})
			}
		}
		return js
	case "C12":
		return []*Job{{Harness: "C12Conc", Params: map[string]int{}}}
	}
	return nil
}

func init() {
	props["C12"] = &PropSpec{
		ID: "C12",
		Jobs: func(tier string) []*Job {
			var js []*Job
			maxK := 3
			if tier == "thorough" {
				maxK = 4
			}
			for k := 1; k <= maxK; k++ {
				js = append(js, &Job{Harness: "C12History", Params: map[string]int{"k": k}})
			}
			js = append(js, threadJobs("C12")...)
			return js
		},
		Bounds: func(tier string) string {
			k := 3
			if tier == "thorough" {
				k = 4
			}
			return fmt.Sprintf("every sequence of k<=%d requests over 13 shapes (a direct match through an infix catch-all route, an Iter.Reverse loop left at its first match followed by a direct request, direct, ignored trailing slash, 404, 405, OPTIONS, redirect, manual Lookup+Clone+Close, CloneWith in a handler, Clone in a handler, tree replaced by Handle before the request, connection hijacked by the handler) with distinct tokens in path parameter, query, request header, response header, status and body size; every sync.Pool.Get explores each pooled context; every getter read in each handler; clones re-read at the end", k)
		},
		RequiredCovers: []string{"Clone of a Lookup context", "CloneWith in a handler", "Clone taken in a handler", "concurrent requests", "redirect handler context observed", "connection hijacked in a handler", "Iter.Reverse loop left early", "Clone of a context without parameters"},
		Assumptions:    []string{"sync.Pool modelled as a bag from which Get may return any pooled object (all choices explored) or call New when empty", "concurrent mixes of requests are not decided by this check (see level_note)"},
	}
}

func init() {
	props["C18"] = &PropSpec{
		ID: "C18",
		Jobs: func(tier string) []*Job {
			var js []*Job
			for g := 0; g < 4; g++ {
				for v6 := 0; v6 < 2; v6++ {
					js = append(js, &Job{Harness: "C18Ranges", Params: map[string]int{"group": g, "v6": v6}})
				}
			}
			maxK, maxN := 3, 4
			if tier == "thorough" {
				maxK, maxN = 4, 6
			}
			for fwd := 0; fwd < 2; fwd++ {
				for k := 0; k <= maxK; k++ {
					if k == maxK && tier != "thorough" && fwd == 1 {
						continue
					}
					js = append(js, &Job{Harness: "C18Designate", Params: map[string]int{"k": k, "fwd": fwd}})
					// the 8 combinations of the private / loopback / link-local range options of the non-private strategies
					if k >= 1 && k <= 2 || (k == 3 && tier == "thorough") {
						js = append(js, &Job{Harness: "C18Designate", Params: map[string]int{"k": k, "fwd": fwd, "ranges": 1}})
					}
				}
				for n := 0; n <= maxN; n++ {
					js = append(js, &Job{Harness: "C18Prefix", Params: map[string]int{"n": n, "fwd": fwd}})
				}
			}
			js = append(js, &Job{Harness: "C18Single", Params: map[string]int{}})
			maxJunk := 4
			if tier == "thorough" {
				maxJunk = 6
			}
			for fwd := 0; fwd < 2; fwd++ {
				for n := 0; n <= maxJunk; n++ {
					js = append(js, &Job{Harness: "C18Crash", Params: map[string]int{"n": n, "fwd": fwd}})
				}
			}
			js = append(js, &Job{Harness: "C18Crash", Params: map[string]int{"n": 5, "fwd": 1}})
			return js
		},
		Bounds: func(tier string) string {
			k, n := 3, 4
			if tier == "thorough" {
				k, n = 4, 6
			}
			return fmt.Sprintf("(a) every IPv4 (2^32) and IPv6 (2^128, incl. IPv4-mapped) address against the default, private, loopback and link-local range groups, by solver; (b) header lists of up to %d entries from a 15-entry catalogue (public/private/loopback/link-local v4 and v6, ports, brackets, zones, quotes, Forwarded parameters and capitalisation, empty, junk, unspecified, padded with spaces, padded with tabs), solver-chosen split over header instances, X-Forwarded-For and Forwarded, trusted counts and limits 1..4; for lists of 1..2 (thorough: 1..3) entries the two non-private strategies also under all 8 combinations of their private / loopback / link-local range options; (c) an attacker prefix of 0..%d arbitrary bytes (commas included) in the same or an earlier header instance, for the three rightmost strategies over suffixes of 1..2 catalogue entries; single-header, chain and remote-address resolvers over catalogue pairs; crash freedom: every header value and remote address of 0..4 (quick; Forwarded also 5) / 0..6 (thorough) arbitrary bytes through every resolver", k, n)
		},
		RequiredCovers: []string{"non private: a strict subset of the range classes configured", "IPv4 address inside the default ranges", "IPv6 address inside the default ranges", "IPv4-mapped address inside the default ranges",
			"trusted count: designated entry", "trusted count: error", "non private: designated entry", "trusted range: designated entry", "trusted range: error",
			"leftmost: designated entry", "single header: last instance", "chain falls through to the next resolver", "selection exists in the suffix", "arbitrary header content survived every resolver"},
		Assumptions: []string{
			"strings.TrimSpace modelled for ASCII white space (a non-ASCII byte at the end of an attacker-controlled item prunes the path); strings.EqualFold modelled as ASCII folding",
			"the IP-literal grammar (net.ParseIP/netip) is executed natively on concrete entries; an attacker-controlled item that the code under test tries to parse as an address is modelled as: invalid when it contains a byte that cannot occur in an IP literal, otherwise one of a few literal addresses of that length, other spellings outside the bound (path pruned)",
			"the in-package accessor for the default ranges is injected as a go build overlay from /verif/harness/overlay (no file is added to /repo)",
			"reference for 'not globally routable': IANA IPv4/IPv6 special-purpose registries plus multicast and reserved space, listed in harness/c18.go",
		},
	}
}

func init() {
	props["C06"] = &PropSpec{
		ID: "C06",
		Jobs: func(tier string) []*Job {
			var js []*Job
			sets := []int{0, 7, 10, 11}
			maxLp, maxLn := 4, 3
			if tier == "thorough" {
				sets = []int{0, 3, 7, 10, 11, 15}
				maxLp, maxLn = 4, 3
			}
			for _, s := range sets {
				for stage := 0; stage < 6; stage++ {
					for lp := 2; lp <= maxLp; lp++ {
						js = append(js, &Job{Harness: "C06Parked", Params: map[string]int{"set": s, "stage": stage, "lh": 0, "lp": lp, "ln": maxLn - 1}})
					}
					js = append(js, &Job{Harness: "C06Parked", Params: map[string]int{"set": s, "stage": stage, "lh": 2, "lp": 3, "ln": maxLn}})
				}
			}
			// the same reads on a tree published by a transaction that truncated one method only
			for stage := 0; stage < 4; stage++ {
				js = append(js, &Job{Harness: "C06Parked", Params: map[string]int{"set": 0, "trunc": 1, "stage": stage, "lh": 0, "lp": 3, "ln": 2}})
			}
			// a 30-level chain (deep-tree code paths of the iterators)
			for stage := 0; stage < 6; stage++ {
				js = append(js, &Job{Harness: "C06Parked", Params: map[string]int{"set": 0, "deep": 1, "stage": stage, "lh": 0, "lp": 3, "ln": 2}})
			}
			return js
		},
		Bounds: func(tier string) string {
			if tier == "thorough" {
				return "6 corpus routers (routes alternately GET/POST plus one PATCH route, redirect-trailing-slash on, 405 and auto-OPTIONS on) x a write transaction parked at 5 stages (just opened; after Handle+Delete+Truncate; inside Updates; after Txn.Snapshot and Txn.Iter; after a commit that replaced the tree on which a Lookup context, an Iter and a read-only Txn had been obtained - these are then used and closed) x every read entry point (ServeHTTP in 4 methods, Lookup, Clone, Reverse, Has, Route, Len, Stats, Iter.All/Methods/Prefix/Routes/Reverse, View with all Txn reads, read-only Txn with Snapshot/Commit/Abort) on every path of 2..4 bytes, host of 0 or 2 bytes and pattern of 2..3 bytes; conversely (stage 6) a write (Handle+Delete) completes while a reader is parked inside Iter.Methods/All/Routes/Prefix/Reverse, inside View, with an open read-only Txn + Snapshot, with an open Lookup context and inside a request handler (also deleting and re-registering the very route being served); stages 1-4 also on a tree published by a partial Truncate; the same 6 stages on a 30-level chain router (deep-tree iterator paths), path of 3 bytes; plus: a second writer does block"
			}
			return "4 corpus routers (routes alternately GET/POST plus one PATCH route, redirect-trailing-slash on, 405 and auto-OPTIONS on) x a write transaction parked at 5 stages (just opened; after Handle+Delete+Truncate; inside Updates; after Txn.Snapshot and Txn.Iter; after a commit that replaced the tree on which a Lookup context, an Iter and a read-only Txn had been obtained - these are then used and closed) x every read entry point (ServeHTTP in 4 methods, Lookup, Clone, Reverse, Has, Route, Len, Stats, Iter.All/Methods/Prefix/Routes/Reverse, View with all Txn reads, read-only Txn with Snapshot/Commit/Abort) on every path of 2..4 bytes, host of 0 or 2 bytes and pattern of 2..3 bytes; conversely (stage 6) a write (Handle+Delete) completes while a reader is parked inside Iter.Methods/All/Routes/Prefix/Reverse, inside View, with an open read-only Txn + Snapshot, with an open Lookup context and inside a request handler (also deleting and re-registering the very route being served); stages 1-4 also on a tree published by a partial Truncate; the same 6 stages on a 30-level chain router (deep-tree iterator paths), path of 3 bytes; plus: a second writer does block"
		},
		RequiredCovers: []string{"all read entry points completed while a writer was parked", "stale context closed while a writer was parked", "writes completed while readers were parked", "served route deleted inside its handler", "reads on a tree published by a partial truncate"},
		Assumptions: []string{
			"sync.Mutex modelled: Lock on a mutex held by the parked writer is reported as blocked-forever (deadlock violation); blocking inside the Go runtime, sync.Pool or atomics is outside the model",
			"the parked writer and the reader are the same executor thread: no scheduling is involved, the claim is that no read path acquires the writer lock (or any lock the writer holds) for any input in the bounds",
		},
	}
}

func init() {
	props["C05"] = &PropSpec{
		ID: "C05",
		Jobs: func(tier string) []*Job {
			var js []*Job
			sets := []int{0, 3, 10, 17}
			pre := 2
			if tier == "thorough" {
				sets = []int{0, 1, 3, 6, 7, 10, 11, 13, 17, nHandSets, nHandSets + 3}
				pre = 3
			}
			for _, s := range sets {
				for sc := 0; sc < 11; sc++ {
					js = append(js, &Job{Harness: "C05Conc", Params: map[string]int{"set": s, "scenario": sc, "preempt": pre}})
				}
			}
			js = append(js, &Job{Harness: "C12Conc", Params: map[string]int{}})
			js = append(js, threadJobs("C13")...)
			return js
		},
		Bounds: func(tier string) string {
			sets, pre := 3, 2
			if tier == "thorough" {
				sets, pre = 11, 3
			}
			return fmt.Sprintf("%d start routers x 11 thread programs (a write transaction that settles a snapshot of itself half way || another writer; Router.Delete of one route || Handle of another; a route moved from POST to GET in one Updates || a GET request with 405 handling on; Truncate(method) + re-registration in one Updates || reader; Handle||Handle on different routes from a 7-pattern pool; Handle||Handle on the same route; Update||Delete; two-route Updates || reader doing Has,Has,Iter.All,Has; Handle || ServeHTTP || ServeHTTP on routes sharing nodes; aborted write txn || reader; Update of a parent + Handle below it + marker in one Updates || reader) plus ServeHTTP||ServeHTTP with per-request tokens and NewRoute||NewRoute with 0..4 global middleware registered through WithMiddleware, WithMiddlewareFor or followed by DefaultOptions: every interleaving at synchronisation granularity (mutex Lock, atomic Load/Store, sync.Pool Get/Put, thread start/exit) with at most %d pre-emptive context switches; <= 3 threads besides the joiner; happens-before race monitor on every heap cell", sets, pre)
		},
		RequiredCovers: []string{"W||W different routes", "W||W same route", "Update||Delete", "txn||reader", "W||R||R", "abort||reader", "update+write-below||reader", "truncate+refill||reader", "Delete||Handle", "method move||request", "txn with settled snapshot||writer", "concurrent requests", "concurrent NewRoute"},
		Assumptions: []string{
			"threads switch only at synchronisation operations; schedules finer than that are covered by the DRF argument only because the happens-before race monitor is clean on every explored schedule",
			"pre-emption bound as stated; more threads, more operations per thread and unbounded pre-emption are outside the claim",
			"memory model assumed: Go's (mutex unlock->lock, atomic store->load, sync.Pool Put->Get of the same object, go statement and join synchronise); sync.Pool modelled as a LIFO bag (no per-P caches); hardware reorderings beyond the Go memory model are outside the claim",
			"native replay of a schedule is not possible: race findings are confirmed with `go test -race` on the witness harness, assertion findings of concurrent harnesses by repeated native runs; a finding that cannot be confirmed is reported as inconclusive, never as a violation",
			"linearizability is checked through the listed observable obligations (no lost update, exactly-one-winner, all-or-nothing snapshots, monotonic reads, aborted writes invisible), not against a general linearizability checker",
		},
	}
}
