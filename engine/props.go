package main

import "fmt"

func rangeJobs(h string, key string, lo, hi int) []*Job {
	var js []*Job
	for n := lo; n <= hi; n++ {
		js = append(js, &Job{Harness: h, Params: map[string]int{key: n}})
	}
	return js
}

func init() {
	props["C17"] = &PropSpec{
		ID: "C17",
		Jobs: func(tier string) []*Job {
			hi := 7
			if tier == "thorough" {
				hi = 9
			}
			return rangeJobs("C17Clean", "n", 0, hi)
		},
		Bounds: func(tier string) string {
			hi := 7
			if tier == "thorough" {
				hi = 9
			}
			return fmt.Sprintf("every input string of 0..%d bytes over the full byte alphabet (256^n each), by solver", hi)
		},
		RequiredCovers: []string{"trailing-slash-in"},
	}
}
