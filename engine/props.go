package main

import "fmt"

func rangeJobs(h string, key string, lo, hi int) []*Job {
	var js []*Job
	for n := lo; n <= hi; n++ {
		js = append(js, &Job{Harness: h, Params: map[string]int{key: n}})
	}
	return js
}

func init() {
	props["C17"] = &PropSpec{
		ID: "C17",
		Jobs: func(tier string) []*Job {
			hi := 7
			if tier == "thorough" {
				hi = 9
			}
			return rangeJobs("C17Clean", "n", 0, hi)
		},
		Bounds: func(tier string) string {
			hi := 7
			if tier == "thorough" {
				hi = 9
			}
			return fmt.Sprintf("every input string of 0..%d bytes over the full byte alphabet (256^n each), by solver", hi)
		},
		RequiredCovers: []string{"trailing-slash-in"},
	}
}

func init() {
	c10n := func(tier string) int {
		if tier == "thorough" {
			return 8
		}
		return 6
	}
	props["C10"] = &PropSpec{
		ID: "C10",
		Jobs: func(tier string) []*Job {
			var js []*Job
			for lim := 0; lim < 3; lim++ {
				for n := 0; n <= c10n(tier); n++ {
					if lim > 0 && n > c10n(tier)-1 {
						continue
					}
					js = append(js, &Job{Harness: "C10Parse", Params: map[string]int{"n": n, "limits": lim}})
				}
			}
			return js
		},
		Bounds: func(tier string) string {
			return fmt.Sprintf("C10(a): every pattern string of 0..%d bytes over the full byte alphabet with default limits, 0..%d bytes with (maxParams,maxKeyBytes) in {(1,1),(2,3)}", c10n(tier), c10n(tier)-1)
		},
		RequiredCovers: []string{"accepted", "rejected", "accepted with hostname", "accepted with wildcard", "dont-care region"},
		Assumptions: []string{
			"grammar don't-care regions (neither acceptance nor rejection asserted): '_' in a host label, an all-numeric last label beside non-numeric ones, '-' directly before a host {param}",
			"fmt.Errorf modelled (message opaque, %w operands kept); errors.Is modelled by walking Unwrap",
		},
	}
}

const nHandSets = 17

func lookupJobs(h string, nsets, maxLh, maxLp int) []*Job {
	var js []*Job
	for s := 0; s < nsets; s++ {
		for lh := 0; lh <= maxLh; lh++ {
			for lp := 1; lp <= maxLp; lp++ {
				js = append(js, &Job{Harness: h, Params: map[string]int{"set": s, "lh": lh, "lp": lp}})
			}
		}
	}
	return js
}

func init() {
	props["C01"] = &PropSpec{
		ID: "C01",
		Jobs: func(tier string) []*Job {
			if tier == "thorough" {
				return lookupJobs("C01Lookup", nHandSets+187, 5, 9)
			}
			return lookupJobs("C01Lookup", nHandSets+47, 3, 7)
		},
		Bounds: func(tier string) string {
			if tier == "thorough" {
				return "200 corpus route sets x every Host of 0..5 bytes x every path of 1..9 bytes (full byte alphabet, no empty segment), method GET"
			}
			return "60 corpus route sets x every Host of 0..3 bytes x every path of 1..7 bytes (full byte alphabet, no empty segment), method GET"
		},
		RequiredCovers: []string{"direct match", "no direct match", "matched via hostname", "one backtrack", "two backtracks", "infix catch-all matched"},
	}
}
