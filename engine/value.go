package main

// Value representation (after golang.org/x/tools/go/ssa/interp, BSD licence, heavily modified):
//
//   bool | *Term(w=0)            booleans
//   int64 | *Term(w>0)           every integer type; canonical form = value sign/zero-extended
//                                to 64 bits according to the static type
//   float64                      float32/float64 (concrete only)
//   string | *sstr               strings: concrete, or concrete length with symbolic bytes
//   *value                       pointers (to a cell)
//   []value                      slices (cells)
//   array, structure             aggregates
//   iface                        interfaces (dynamic type + value)
//   *omap                        maps (insertion ordered, deterministic)
//   *ssa.Function, *closure, *ssa.Builtin   functions
//   tuple                        multi-value results
//   *native                      opaque native Go object (regexp etc.)

import (
	"fmt"
	"go/types"
	"strings"

	"golang.org/x/tools/go/ssa"
)

type value = any

type tuple []value
type array []value
type structure []value

type iface struct {
	t types.Type // nil for nil interface
	v value
}

type closure struct {
	Fn  *ssa.Function
	Env []value
}

type native struct {
	v any
}

// sstr is a string with concrete length whose bytes may be symbolic (int64 or *Term of width 8).
type sstr struct {
	b []value
}

type bad struct{}

// ---------------------------------------------------------------------------------------------
// strings

func strLen(v value) int {
	switch s := v.(type) {
	case string:
		return len(s)
	case *sstr:
		return len(s.b)
	}
	panic(fmt.Sprintf("strLen: %T", v))
}

// strBytes returns the bytes of a string value as values (int64 or *Term).
func strBytes(v value) []value {
	switch s := v.(type) {
	case string:
		r := make([]value, len(s))
		for i := 0; i < len(s); i++ {
			r[i] = int64(s[i])
		}
		return r
	case *sstr:
		return s.b
	}
	panic(fmt.Sprintf("strBytes: %T", v))
}

// mkStr builds a string value from bytes, normalising to a Go string when fully concrete.
func mkStr(b []value) value {
	conc := true
	for _, x := range b {
		if _, ok := x.(int64); !ok {
			conc = false
			break
		}
	}
	if conc {
		bs := make([]byte, len(b))
		for i, x := range b {
			bs[i] = byte(x.(int64))
		}
		return string(bs)
	}
	return &sstr{b: b}
}

func strIndex(v value, i int) value {
	switch s := v.(type) {
	case string:
		return int64(s[i])
	case *sstr:
		return s.b[i]
	}
	panic("strIndex")
}

func strSlice(v value, lo, hi int) value {
	switch s := v.(type) {
	case string:
		return s[lo:hi]
	case *sstr:
		return mkStr(s.b[lo:hi:hi])
	}
	panic("strSlice")
}

func isConcreteStr(v value) (string, bool) {
	s, ok := v.(string)
	return s, ok
}

// ---------------------------------------------------------------------------------------------
// ordered map

type mapEntry struct {
	k, v    value
	deleted bool
}

type omap struct {
	keyType types.Type
	ents    []*mapEntry
	idx     map[any]*mapEntry // fast path for hashable concrete keys
	n       int
}

func newOmap(kt types.Type) *omap {
	return &omap{keyType: kt, idx: map[any]*mapEntry{}}
}

// hashKey returns a Go-comparable key for concrete keys, or ok=false.
func hashKey(k value) (any, bool) {
	switch k := k.(type) {
	case bool, int64, float64, string, *value:
		return k, true
	case iface:
		if k.t == nil {
			return "nil-iface", true
		}
		in, ok := hashKey(k.v)
		if !ok {
			return nil, false
		}
		return [2]any{types.TypeString(k.t, nil), in}, true
	case structure:
		var sb strings.Builder
		for _, f := range k {
			h, ok := hashKey(f)
			if !ok {
				return nil, false
			}
			fmt.Fprintf(&sb, "%T:%v|", h, h)
		}
		return "S" + sb.String(), true
	case array:
		var sb strings.Builder
		for _, f := range k {
			h, ok := hashKey(f)
			if !ok {
				return nil, false
			}
			fmt.Fprintf(&sb, "%T:%v|", h, h)
		}
		return "A" + sb.String(), true
	}
	return nil, false
}

func (m *omap) len() int {
	if m == nil {
		return 0
	}
	return m.n
}

// ---------------------------------------------------------------------------------------------
// types

func deref(t types.Type) types.Type {
	if p, ok := t.Underlying().(*types.Pointer); ok {
		return p.Elem()
	}
	panic(fmt.Sprintf("deref: not a pointer: %s", t))
}

// intInfo reports width and signedness for integer types.
func intInfo(t types.Type) (w int, signed bool, ok bool) {
	b, isB := t.Underlying().(*types.Basic)
	if !isB {
		return 0, false, false
	}
	switch b.Kind() {
	case types.Int, types.Int64, types.UntypedInt:
		return 64, true, true
	case types.Int8:
		return 8, true, true
	case types.Int16:
		return 16, true, true
	case types.Int32, types.UntypedRune:
		return 32, true, true
	case types.Uint, types.Uint64, types.Uintptr:
		return 64, false, true
	case types.Uint8:
		return 8, false, true
	case types.Uint16:
		return 16, false, true
	case types.Uint32:
		return 32, false, true
	}
	return 0, false, false
}

func isStringType(t types.Type) bool {
	b, ok := t.Underlying().(*types.Basic)
	return ok && b.Info()&types.IsString != 0
}
func isBoolType(t types.Type) bool {
	b, ok := t.Underlying().(*types.Basic)
	return ok && b.Info()&types.IsBoolean != 0
}
func isFloatType(t types.Type) bool {
	b, ok := t.Underlying().(*types.Basic)
	return ok && b.Info()&types.IsFloat != 0
}

// norm canonicalises an integer to width w.
func norm(v int64, w int, signed bool) int64 {
	if w >= 64 {
		return v
	}
	if signed {
		return sext(uint64(v), w)
	}
	return int64(uint64(v) & mask(w))
}

// zero returns the zero value of type t.
func zero(t types.Type) value {
	switch t := t.(type) {
	case *types.Basic:
		if t.Kind() == types.UntypedNil {
			panic("untyped nil has no zero value")
		}
		info := t.Info()
		switch {
		case info&types.IsBoolean != 0:
			return false
		case info&types.IsInteger != 0:
			return int64(0)
		case info&types.IsFloat != 0:
			return float64(0)
		case info&types.IsString != 0:
			return ""
		case t.Kind() == types.UnsafePointer:
			return (*value)(nil)
		case info&types.IsComplex != 0:
			return complex128(0)
		}
		panic(fmt.Sprint("zero for unexpected type:", t))
	case *types.Pointer:
		return (*value)(nil)
	case *types.Array:
		a := make(array, t.Len())
		for i := range a {
			a[i] = zero(t.Elem())
		}
		return a
	case *types.Named:
		return zero(t.Underlying())
	case *types.Alias:
		return zero(types.Unalias(t))
	case *types.Interface:
		return iface{}
	case *types.Slice:
		return []value(nil)
	case *types.Struct:
		s := make(structure, t.NumFields())
		for i := range s {
			s[i] = zero(t.Field(i).Type())
		}
		return s
	case *types.Tuple:
		if t.Len() == 1 {
			return zero(t.At(0).Type())
		}
		s := make(tuple, t.Len())
		for i := range s {
			s[i] = zero(t.At(i).Type())
		}
		return s
	case *types.Chan:
		return (*value)(nil)
	case *types.Map:
		return (*omap)(nil)
	case *types.Signature:
		return (*ssa.Function)(nil)
	case *types.TypeParam:
		panic("zero of type parameter (generic body executed?)")
	}
	panic(fmt.Sprint("zero: unexpected ", t))
}

// copyVal returns a copy of an aggregate value (value semantics for struct/array).
func copyVal(v value) value {
	switch v := v.(type) {
	case structure:
		a := make(structure, len(v))
		for i := range v {
			a[i] = copyVal(v[i])
		}
		return a
	case array:
		a := make(array, len(v))
		for i := range v {
			a[i] = copyVal(v[i])
		}
		return a
	}
	return v
}

func typeString(t types.Type) string {
	if t == nil {
		return "<nil>"
	}
	return types.TypeString(t, nil)
}

func toString(v value) string {
	switch v := v.(type) {
	case nil:
		return "<nil>"
	case string:
		return fmt.Sprintf("%q", v)
	case *sstr:
		var sb strings.Builder
		sb.WriteString("sym\"")
		for _, b := range v.b {
			if c, ok := b.(int64); ok {
				sb.WriteByte(byte(c))
			} else {
				sb.WriteString("?")
			}
		}
		sb.WriteString("\"")
		return sb.String()
	case *Term:
		return v.String()
	case iface:
		if v.t == nil {
			return "nil-iface"
		}
		return "(" + typeString(v.t) + ", " + toString(v.v) + ")"
	case structure:
		var sb strings.Builder
		sb.WriteString("{")
		for i, e := range v {
			if i > 0 {
				sb.WriteString(" ")
			}
			if i > 6 {
				sb.WriteString("...")
				break
			}
			sb.WriteString(toString(e))
		}
		sb.WriteString("}")
		return sb.String()
	case *value:
		if v == nil {
			return "nilptr"
		}
		return fmt.Sprintf("%p", v)
	case []value:
		return fmt.Sprintf("slice[%d]", len(v))
	case tuple:
		var sb strings.Builder
		sb.WriteString("(")
		for i, e := range v {
			if i > 0 {
				sb.WriteString(", ")
			}
			sb.WriteString(toString(e))
		}
		sb.WriteString(")")
		return sb.String()
	case *ssa.Function:
		if v == nil {
			return "nilfunc"
		}
		return v.String()
	case *closure:
		return "closure:" + v.Fn.String()
	}
	return fmt.Sprintf("%v", v)
}
