package main

// Cooperative threads for concurrent harnesses.
//
// Each harness thread (sym.Go) runs on its own goroutine but exactly one runs at a time (baton passing).
// Context switches happen only at synchronisation operations (mutex Lock, atomic Load/Store, sync.Pool
// Get/Put, thread start/exit, Join); the choice of the thread that runs next is a decision point of the
// path, so every interleaving at synchronisation granularity (within the pre-emption bound) is explored.
// A vector-clock happens-before monitor (FastTrack style) flags conflicting accesses that are not ordered
// by happens-before: for data-race-free programs the sync-granularity exploration is exhaustive, and a
// racy program exhibits an unordered conflicting pair on some explored schedule.

import (
	"fmt"
	"go/token"

	"golang.org/x/tools/go/ssa"
)

const maxThreads = 4

type vclock [maxThreads]int32

func (a *vclock) join(b *vclock) {
	for k := range a {
		if b[k] > a[k] {
			a[k] = b[k]
		}
	}
}

const (
	tRunnable = iota
	tBlocked
	tJoining
	tDone
)

type thread struct {
	id      int
	resume  chan struct{}
	status  int
	waitFor *value
	vc      vclock
	depth   int
}

type cellMeta struct {
	wTid   int8
	wClock int32
	wPos   string
	reads  vclock
	rPos   [maxThreads]string
}

type threadState struct {
	inAtomic    int
	threads     []*thread
	cur         *thread
	syncVC      map[any]*vclock
	cells       map[*value]*cellMeta
	preemptions int
	maxPreempt  int
	races       []string
	abort       any
	killed      bool
	ack         chan struct{}
	seq         int
	raceOn      bool
	poolSync    bool // sync.Pool Get/Put are scheduling points too
}

func newThreadState(maxPreempt int) *threadState {
	t := &threadState{syncVC: map[any]*vclock{}, cells: map[*value]*cellMeta{}, maxPreempt: maxPreempt, ack: make(chan struct{}), raceOn: true}
	main := &thread{id: 0, resume: make(chan struct{})}
	main.vc[0] = 1
	t.threads = []*thread{main}
	t.cur = main
	return t
}

// access is called for every heap cell read/write while threads are enabled.
func (t *threadState) access(i *Interp, addr *value, write bool) {
	if !t.raceOn || len(t.threads) < 2 {
		return
	}
	c := t.cur
	m := t.cells[addr]
	if m == nil {
		m = &cellMeta{wTid: -1}
		t.cells[addr] = m
	}
	if m.wTid >= 0 && int(m.wTid) != c.id && m.wClock > c.vc[m.wTid] {
		t.race(i, fmt.Sprintf("write by thread %d at %s", m.wTid, m.wPos), write)
	}
	if write {
		for u := range m.reads {
			if u != c.id && m.reads[u] > c.vc[u] {
				t.race(i, fmt.Sprintf("read by thread %d at %s", u, m.rPos[u]), true)
			}
		}
		m.wTid, m.wClock = int8(c.id), c.vc[c.id]
		m.wPos = i.where()
		m.reads = vclock{}
	} else {
		m.reads[c.id] = c.vc[c.id]
		m.rPos[c.id] = i.where()
	}
}

func (t *threadState) race(i *Interp, other string, write bool) {
	if len(t.races) >= 4 {
		return
	}
	kind := "read"
	if write {
		kind = "write"
	}
	t.races = append(t.races, fmt.Sprintf("DATA RACE: %s by thread %d at %s conflicts with %s (not ordered by happens-before)", kind, t.cur.id, i.where(), other))
}

func (t *threadState) acquire(i *Interp, key any) {
	if v := t.syncVC[key]; v != nil {
		t.cur.vc.join(v)
	}
}

func (t *threadState) release(i *Interp, key any) {
	v := t.syncVC[key]
	if v == nil {
		v = &vclock{}
		t.syncVC[key] = v
	}
	v.join(&t.cur.vc)
	t.cur.vc[t.cur.id]++
}

func (t *threadState) runnable() []*thread {
	var out []*thread
	for _, th := range t.threads {
		if th.status == tRunnable {
			out = append(out, th)
		}
	}
	return out
}

// choose is a scheduler decision among n alternatives (all feasible: no solver query).
func (t *threadState) choose(i *Interp, n int) int {
	if n <= 1 {
		return 0
	}
	v := i.freshVarNamed(fmt.Sprintf("sched%d", t.seq), fmt.Sprintf("i_sched%d", t.seq), 64)
	t.seq++
	for j := 0; j < n-1; j++ {
		if i.decideKnown(i.ts.Eq(v, i.ts.Const(uint64(j), 64))) {
			return j
		}
	}
	i.assertPC(i.ts.Eq(v, i.ts.Const(uint64(n-1), 64)))
	return n - 1
}

// switchTo hands the baton to next and parks the current goroutine until it is resumed.
func (t *threadState) switchTo(i *Interp, next *thread) {
	prev := t.cur
	if next == prev {
		return
	}
	prev.depth = i.depth
	t.cur = next
	i.depth = next.depth
	next.resume <- struct{}{}
	<-prev.resume
	t.afterResume(i, prev)
}

func (t *threadState) afterResume(i *Interp, me *thread) {
	if t.killed {
		panic(pathEnd{kind: "killed"})
	}
	if t.abort != nil && me.id == 0 {
		a := t.abort
		t.abort = nil
		panic(a)
	}
}

// syncPoint is called before a visible operation: the scheduler may pre-empt the current thread.
func (t *threadState) syncPoint(i *Interp, what string) {
	if len(t.threads) < 2 || t.inAtomic > 0 {
		return
	}
	if !t.poolSync && (what == "pool.Get" || what == "pool.Put") {
		return
	}
	cands := t.runnable()
	if len(cands) <= 1 {
		return
	}
	if t.preemptions >= t.maxPreempt {
		return
	}
	// order: current thread first, so that choice 0 = "no pre-emption"
	ordered := []*thread{t.cur}
	for _, th := range cands {
		if th != t.cur {
			ordered = append(ordered, th)
		}
	}
	k := t.choose(i, len(ordered))
	if k != 0 {
		t.preemptions++
		t.switchTo(i, ordered[k])
	}
}

// yieldBlocked gives the processor away because the current thread cannot continue.
func (t *threadState) yieldBlocked(i *Interp, why string) {
	cands := t.runnable()
	if len(cands) == 0 {
		// nobody can run: deadlock (unless everything else is done and main is joining: handled by caller)
		panic(pathEnd{kind: "deadlock", msg: "all threads blocked: " + why + " at " + i.where()})
	}
	k := t.choose(i, len(cands))
	t.switchTo(i, cands[k])
}

func (t *threadState) lock(i *Interp, p, st, sema *value) {
	t.syncPoint(i, "Lock")
	for (*st).(int64) != 0 {
		t.cur.status = tBlocked
		t.cur.waitFor = p
		t.yieldBlocked(i, "sync.Mutex.Lock")
	}
	t.cur.status = tRunnable
	*st = int64(1)
	i.undo = append(i.undo, undoEntry{addr: st, old: int64(0)})
	t.acquire(i, p)
	i.syncEvent("lock", p)
}

func (t *threadState) unlock(i *Interp, p, st, sema *value) {
	t.release(i, p)
	i.undo = append(i.undo, undoEntry{addr: st, old: *st})
	*st = int64(0)
	i.syncEvent("unlock", p)
	for _, th := range t.threads {
		if th.status == tBlocked && th.waitFor == p {
			th.status = tRunnable
			th.waitFor = nil
		}
	}
}

// spawn starts a new thread for `go fn(args)` / sym.Go.
func (t *threadState) spawn(i *Interp, fr *frame, instr *ssa.Go, fn value, args []value) {
	if len(t.threads) >= maxThreads {
		i.unsupported("more than %d threads", maxThreads)
	}
	th := &thread{id: len(t.threads), resume: make(chan struct{})}
	th.vc = t.cur.vc
	th.vc[th.id] = 1
	t.cur.vc[t.cur.id]++
	t.threads = append(t.threads, th)
	go func() {
		<-th.resume
		func() {
			defer func() {
				r := recover()
				if r == nil {
					return
				}
				if t.killed {
					return
				}
				// anything that ends the path is delivered to the main thread
				if t.abort == nil {
					t.abort = r
				}
			}()
			if t.killed {
				return
			}
			i.call(nil, token.NoPos, fn, args)
		}()
		th.status = tDone
		// publish this thread's history for Join
		t.release(i, "join")
		if t.killed {
			t.ack <- struct{}{}
			return
		}
		t.afterExit(i, th)
	}()
	// the new thread is runnable; whether it runs now is a scheduling decision
	t.syncPoint(i, "go")
}

// afterExit picks who runs after a thread finished (or aborted the path).
func (t *threadState) afterExit(i *Interp, th *thread) {
	main := t.threads[0]
	if t.abort != nil {
		t.cur = main
		i.depth = main.depth
		main.resume <- struct{}{}
		return
	}
	cands := t.runnable()
	if len(cands) == 0 {
		allDone := true
		for _, x := range t.threads[1:] {
			if x.status != tDone {
				allDone = false
			}
		}
		if main.status == tJoining && allDone {
			main.status = tRunnable
			cands = []*thread{main}
		} else {
			t.abort = pathEnd{kind: "deadlock", msg: "all remaining threads are blocked after a thread exited"}
			t.cur = main
			i.depth = main.depth
			main.resume <- struct{}{}
			return
		}
	}
	var next *thread
	func() {
		defer func() {
			if r := recover(); r != nil {
				t.abort = r
				next = main
			}
		}()
		next = cands[t.choose(i, len(cands))]
	}()
	t.cur = next
	i.depth = next.depth
	next.resume <- struct{}{}
}

// join blocks the main thread until every other thread has finished.
func (t *threadState) join(i *Interp) {
	me := t.cur
	for {
		allDone := true
		for _, x := range t.threads {
			if x != me && x.status != tDone {
				allDone = false
			}
		}
		if allDone {
			break
		}
		me.status = tJoining
		cands := t.runnable()
		if len(cands) == 0 {
			me.status = tRunnable
			panic(pathEnd{kind: "deadlock", msg: "Join: the remaining threads are all blocked at " + i.where()})
		}
		k := t.choose(i, len(cands))
		t.switchTo(i, cands[k])
		me.status = tRunnable
	}
	t.acquire(i, "join")
}

// killAll unwinds every parked thread goroutine (end of path).
func (t *threadState) killAll() {
	t.killed = true
	for _, th := range t.threads[1:] {
		if th.status != tDone {
			th.resume <- struct{}{}
			<-t.ack
			th.status = tDone
		}
	}
}
