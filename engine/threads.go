package main

import "golang.org/x/tools/go/ssa"

// threadState is the cooperative thread layer (see threads_impl).
type threadState struct {
	inAtomic int
}

func (t *threadState) access(i *Interp, addr *value, write bool) {}
func (t *threadState) lock(i *Interp, p, st, sema *value)        { i.unsupported("threads: lock") }
func (t *threadState) unlock(i *Interp, p, st, sema *value)      { i.unsupported("threads: unlock") }
func (t *threadState) syncPoint(i *Interp, what string)          {}
func (t *threadState) acquire(i *Interp, key any)                {}
func (t *threadState) release(i *Interp, key any)                {}
func (t *threadState) spawn(i *Interp, fr *frame, instr *ssa.Go, fn value, args []value) {
	i.unsupported("threads: spawn")
}
