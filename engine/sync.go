package main

// Models of sync.Mutex, sync.Pool, sync/atomic.Pointer, the frozen-object monitor and threads.

import (
	"fmt"
	"go/token"
	"go/types"

	"golang.org/x/tools/go/ssa"
)

// sync.Mutex is struct{state int32; sema uint32}: state 0 = free, 1 = held (by thread id in sema).
func mutexCells(p *value) (state, sema *value) {
	s := (*p).(structure)
	if len(s) == 1 {
		// go1.24+: sync.Mutex{ _ noCopy; mu isync.Mutex } or similar wrappers: descend
		if in, ok := s[0].(structure); ok && len(in) == 2 {
			return &in[0], &in[1]
		}
	}
	if len(s) >= 2 {
		if in, ok := s[len(s)-1].(structure); ok && len(in) == 2 {
			return &in[0], &in[1]
		}
		return &s[0], &s[1]
	}
	panic(fmt.Sprintf("unexpected sync.Mutex layout: %d fields", len(s)))
}

func (i *Interp) mutexLock(p *value) {
	if p == nil {
		i.rtPanic("invalid memory address or nil pointer dereference")
	}
	st, sema := mutexCells(p)
	if i.threads != nil {
		i.threads.lock(i, p, st, sema)
		return
	}
	if (*st).(int64) != 0 {
		// single-threaded: locking a held mutex blocks forever
		panic(pathEnd{kind: "deadlock", msg: "sync.Mutex.Lock on a mutex that is already held (single thread): would block forever at " + i.where()})
	}
	i.write(st, int64(1))
	i.syncEvent("lock", p)
}

func (i *Interp) mutexTryLock(p *value) value {
	st, _ := mutexCells(p)
	if (*st).(int64) != 0 {
		return false
	}
	i.write(st, int64(1))
	i.syncEvent("lock", p)
	return true
}

func (i *Interp) mutexUnlock(p *value) {
	st, sema := mutexCells(p)
	if (*st).(int64) == 0 {
		panic(targetPanic{iface{t: types.Typ[types.String], v: "fatal error: sync: unlock of unlocked mutex"}})
	}
	if i.threads != nil {
		i.threads.unlock(i, p, st, sema)
		return
	}
	i.write(st, int64(0))
	i.syncEvent("unlock", p)
}

// sync.RWMutex is struct{w Mutex; writerSem, readerSem uint32; readerCount, readerWait atomic.Int32}.
// Model: the writer flag lives in w's state cell, the number of active readers in the writerSem cell.
func rwCells(p *value) (st, sema, readers *value) {
	s := (*p).(structure)
	if len(s) != 5 {
		panic(fmt.Sprintf("unexpected sync.RWMutex layout: %d fields", len(s)))
	}
	st, sema = mutexCells(&s[0])
	return st, sema, &s[1]
}

func cellInt(c *value) int64 {
	if v, ok := (*c).(int64); ok {
		return v
	}
	return 0
}

func (i *Interp) rwLock(p *value, read bool) {
	if p == nil {
		i.rtPanic("invalid memory address or nil pointer dereference")
	}
	st, sema, readers := rwCells(p)
	busy := func() bool {
		if read {
			return cellInt(st) != 0
		}
		return cellInt(st) != 0 || cellInt(readers) != 0
	}
	what := "sync.RWMutex.Lock"
	if read {
		what = "sync.RWMutex.RLock"
	}
	if i.threads != nil {
		t := i.threads
		t.syncPoint(i, "Lock")
		for busy() {
			t.cur.status = tBlocked
			t.cur.waitFor = p
			t.yieldBlocked(i, what)
		}
		t.cur.status = tRunnable
	} else if busy() {
		panic(pathEnd{kind: "deadlock", msg: what + " on a lock that is held (single thread): would block forever at " + i.where()})
	}
	if read {
		i.rawWrite(readers, cellInt(readers)+1)
	} else {
		i.rawWrite(st, int64(1))
	}
	_ = sema
	if i.threads != nil {
		i.threads.acquire(i, p)
	}
	i.syncEvent("lock", p)
}

func (i *Interp) rwUnlock(p *value, read bool) {
	st, _, readers := rwCells(p)
	if read {
		if cellInt(readers) == 0 {
			panic(targetPanic{iface{t: types.Typ[types.String], v: "fatal error: sync: RUnlock of unlocked RWMutex"}})
		}
	} else if cellInt(st) == 0 {
		panic(targetPanic{iface{t: types.Typ[types.String], v: "fatal error: sync: Unlock of unlocked RWMutex"}})
	}
	if i.threads != nil {
		i.threads.release(i, p)
	}
	if read {
		i.rawWrite(readers, cellInt(readers)-1)
	} else {
		i.rawWrite(st, int64(0))
	}
	i.syncEvent("unlock", p)
	if i.threads != nil {
		for _, th := range i.threads.threads {
			if th.status == tBlocked && th.waitFor == p {
				th.status = tRunnable
				th.waitFor = nil
			}
		}
	}
}

func (i *Interp) syncEvent(kind string, p *value) {
	if i.syncTrace != nil {
		*i.syncTrace = append(*i.syncTrace, syncEv{kind: kind, obj: p})
	}
}

type syncEv struct {
	kind string
	obj  *value
}

// sync.Pool: struct{noCopy; local unsafe.Pointer; localSize uintptr; victim unsafe.Pointer; victimSize uintptr; New func() any}
// The bag of pooled objects is kept as a []value in the `local` field.
func poolFields(p *value) (bag *value, newFn *value) {
	s := (*p).(structure)
	return &s[1], &s[len(s)-1]
}

// poolEntry is one pooled object together with the clock of the Put that stored it: a Get synchronises with
// that Put only (an object that was put twice is two entries; taking the older one is not ordered after the
// user of the newer one).
type poolEntry struct {
	x  value
	vc vclock
}

func (i *Interp) poolGet(fr *frame, p *value) value {
	if p == nil {
		i.rtPanic("invalid memory address or nil pointer dereference")
	}
	bagc, newc := poolFields(p)
	if i.threads != nil {
		i.threads.syncPoint(i, "pool.Get")
	}
	// (read the bag only now: another thread may have run at the scheduling point above)
	bag, _ := (*bagc).([]value)
	if len(bag) > 0 {
		// policy: LIFO unless the harness asked for every choice; with threads every entry may be the one handed out
		k := len(bag) - 1
		if i.poolChoice && len(bag) > 1 {
			v := i.freshVarNamed(fmt.Sprintf("pool%d", i.poolSeq), fmt.Sprintf("i_pool%d", i.poolSeq), 64)
			i.poolSeq++
			i.assume(i.ts.Cmp(OpBVUlt, v, i.ts.Const(uint64(len(bag)), 64)))
			k = int(i.concretize(v))
		} else if i.threads != nil && len(i.threads.threads) > 1 && len(bag) > 1 {
			k = len(bag) - 1 - i.threads.choose(i, len(bag))
		}
		e := bag[k].(poolEntry)
		nb := make([]value, 0, len(bag)-1)
		nb = append(nb, bag[:k]...)
		nb = append(nb, bag[k+1:]...)
		i.rawWrite(bagc, nb)
		if i.threads != nil {
			i.threads.cur.vc.join(&e.vc)
		}
		return e.x
	}
	nf := *newc
	if isNilFunc(nf) {
		return iface{}
	}
	if i.allocTrack {
		i.allocEvent("sync.Pool.New")
	}
	return i.call(fr, token.NoPos, nf, nil)
}

func (i *Interp) poolPut(p *value, x value) {
	if f, ok := x.(iface); ok && f.t == nil {
		return
	}
	bagc, _ := poolFields(p)
	// the scheduling point comes before the operation (as for every other visible operation): another thread may
	// run while this one still holds the object it is about to give back
	if i.threads != nil {
		i.threads.syncPoint(i, "pool.Put")
	}
	bag, _ := (*bagc).([]value)
	nb := make([]value, 0, len(bag)+1)
	nb = append(nb, bag...)
	e := poolEntry{x: x}
	if t := i.threads; t != nil {
		e.vc = t.cur.vc
		t.cur.vc[t.cur.id]++
	}
	nb = append(nb, e)
	i.rawWrite(bagc, nb)
}

// atomic.Pointer[T]: struct{ _ [0]*T; _ noCopy; v unsafe.Pointer }
func atomicCell(p *value) *value {
	s := (*p).(structure)
	return &s[len(s)-1]
}

func (i *Interp) atomicLoad(p *value) value {
	if p == nil {
		i.rtPanic("invalid memory address or nil pointer dereference")
	}
	c := atomicCell(p)
	if i.threads != nil {
		i.threads.syncPoint(i, "atomic.Load")
		i.threads.acquire(i, c)
	}
	i.syncEvent("load", p)
	v := *c
	if v == nil {
		return (*value)(nil)
	}
	return v
}

func (i *Interp) atomicStore(p *value, v value) {
	c := atomicCell(p)
	if i.threads != nil {
		i.threads.syncPoint(i, "atomic.Store")
		i.threads.release(i, c)
	}
	i.syncEvent("store", p)
	// bypass race bookkeeping for the atomic cell itself
	i.undo = append(i.undo, undoEntry{addr: c, old: *c})
	*c = v
}

// ---------------------------------------------------------------------------------------------
// frozen-object monitor

var freezeCut = map[string]bool{
	"github.com/tigerwill90/fox.Router": true,
	"sync.Pool":                         true,
	"sync.Mutex":                        true,
	"sync.RWMutex":                      true,
	"sync.Once":                         true,
}

func (i *Interp) freeze(v value) {
	if i.frozen == nil {
		i.frozen = map[*value]bool{}
	}
	f, ok := v.(iface)
	if !ok || f.t == nil {
		return
	}
	seen := map[any]bool{}
	i.freezeWalk(f.v, f.t, seen)
}

func (i *Interp) freezeCell(c *value, t types.Type, seen map[any]bool) {
	if c == nil || seen[c] {
		return
	}
	if n, ok := t.(*types.Named); ok && n.Obj().Pkg() != nil {
		if freezeCut[n.Obj().Pkg().Path()+"."+n.Obj().Name()] {
			return
		}
	}
	seen[c] = true
	i.frozen[c] = true
	i.freezeWalk(*c, t, seen)
}

func (i *Interp) freezeWalk(v value, t types.Type, seen map[any]bool) {
	if t == nil {
		return
	}
	if n, ok := types.Unalias(t).(*types.Named); ok && n.Obj().Pkg() != nil {
		if freezeCut[n.Obj().Pkg().Path()+"."+n.Obj().Name()] {
			return
		}
	}
	switch u := t.Underlying().(type) {
	case *types.Pointer:
		p, ok := v.(*value)
		if !ok || p == nil {
			return
		}
		i.freezeCell(p, u.Elem(), seen)
	case *types.Struct:
		s, ok := v.(structure)
		if !ok {
			return
		}
		for k := 0; k < u.NumFields(); k++ {
			i.freezeCell(&s[k], u.Field(k).Type(), seen)
		}
	case *types.Array:
		a, ok := v.(array)
		if !ok {
			return
		}
		for k := range a {
			i.freezeCell(&a[k], u.Elem(), seen)
		}
	case *types.Slice:
		s, ok := v.([]value)
		if !ok {
			return
		}
		full := s[:cap(s)]
		for k := range full {
			i.freezeCell(&full[k], u.Elem(), seen)
		}
	case *types.Interface:
		f, ok := v.(iface)
		if ok && f.t != nil {
			i.freezeWalk(f.v, f.t, seen)
		}
	case *types.Map:
		m, ok := v.(*omap)
		if !ok || m == nil || seen[m] {
			return
		}
		seen[m] = true
		for _, e := range m.ents {
			i.freezeWalk(e.v, u.Elem(), seen)
		}
	case *types.Signature:
		c, ok := v.(*closure)
		if !ok || c == nil || seen[c] {
			return
		}
		seen[c] = true
		for k, e := range c.Env {
			i.freezeWalk(e, c.Fn.FreeVars[k].Type(), seen)
		}
	}
}

// ---------------------------------------------------------------------------------------------
// threads (filled in by threads.go)

func (i *Interp) goStmt(fr *frame, instr *ssa.Go, fn value, args []value) {
	if i.threads == nil {
		i.unsupported("go statement outside a threaded harness")
	}
	i.threads.spawn(i, fr, instr, fn, args)
}

// rawWrite updates internal state of a synchronisation object (logged for rollback, not race-tracked).
func (i *Interp) rawWrite(addr *value, v value) {
	i.undo = append(i.undo, undoEntry{addr: addr, old: *addr})
	*addr = v
}
