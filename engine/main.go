package main

import (
	"encoding/json"
	"flag"
	"fmt"
	"go/token"
	"go/types"
	"io"
	"os"
	"os/exec"
	"path/filepath"
	"runtime/debug"
	"sort"
	"strings"
	"sync"
	"time"

	"golang.org/x/tools/go/packages"
	"golang.org/x/tools/go/ssa"
	"golang.org/x/tools/go/ssa/ssautil"
)

// harnessDir / repoDir can be redirected to scratch copies (seed testing without touching /repo).
// verifRoot is the directory holding engine/, harness/, evidence/ ... (set by the check script to its own
// directory, so that a copy of /verif elsewhere is self-contained).
var verifRoot = envOr("SYMGO_ROOT", "/verif")
var harnessDir = envOr("SYMGO_HARNESS_DIR", verifRoot+"/harness")
var repoDir = envOr("SYMGO_REPO_DIR", "/repo")

func envOr(k, d string) string {
	if v := os.Getenv(k); v != "" {
		return v
	}
	return d
}

const harnessPkgPath = "verif/harness"

type Program struct {
	prog    *ssa.Program
	harness *ssa.Package
	pkgs    []*ssa.Package
	srcHash map[string]string
}

func loadProgram() (*Program, error) {
	cfg := &packages.Config{
		Mode: packages.LoadAllSyntax,
		Dir:  harnessDir,
		Env:  append(os.Environ(), "GOFLAGS=-mod=mod", "GOPROXY=off"),
	}
	// in-package exports for the harness are injected as an overlay (nothing is written to /repo)
	cfg.Overlay = map[string][]byte{}
	if b, err := os.ReadFile(harnessDir + "/overlay/clientip_export.go.txt"); err == nil {
		cfg.Overlay[repoDir+"/clientip/zz_verif_export.go"] = b
	}
	if b, err := os.ReadFile(harnessDir + "/overlay/fox_hook.go.txt"); err == nil {
		cfg.Overlay[repoDir+"/zz_verif_hook.go"] = b
	}
	initial, err := packages.Load(cfg, ".")
	if err != nil {
		return nil, err
	}
	if packages.PrintErrors(initial) > 0 {
		return nil, fmt.Errorf("packages contain errors (does /repo still compile?)")
	}
	prog, _ := ssautil.AllPackages(initial, ssa.InstantiateGenerics|ssa.SanityCheckFunctions&0)
	prog.Build()
	p := &Program{prog: prog}
	for _, sp := range prog.AllPackages() {
		if sp.Pkg.Path() == harnessPkgPath {
			p.harness = sp
		}
	}
	if p.harness == nil {
		return nil, fmt.Errorf("harness package not found")
	}
	return p, nil
}

// initPackage reports whether package initialisers of path are interpreted.
func initPackage(path string) bool {
	return strings.HasPrefix(path, "github.com/tigerwill90/fox") || strings.HasPrefix(path, "verif/harness")
}

func NewInterp(p *Program, solverKind string, timeoutMs int) (*Interp, error) {
	i := &Interp{
		prog:         p.prog,
		globals:      map[*ssa.Global]*value{},
		globalReady:  map[*ssa.Global]bool{},
		initPkgs:     map[*ssa.Package]bool{},
		fninfo:       map[*ssa.Function]*fnInfo{},
		ts:           NewTermStore(),
		extCache:     map[*ssa.Function]externalFn{},
		extMiss:      map[*ssa.Function]bool{},
		funcsRun:     map[*ssa.Function]bool{},
		typeByName:   map[string]types.Type{},
		maxSteps:     50_000_000,
		maxDecisions: 10000,
		svCache:      map[*Term]*Term{},
		satCache:     map[*Term]*bitset{},
		useDomains:   os.Getenv("SYMGO_NODOM") == "",
	}
	var logw io.Writer
	if lp := os.Getenv("SYMGO_SMTLOG"); lp != "" {
		f, _ := os.OpenFile(lp, os.O_CREATE|os.O_WRONLY|os.O_APPEND, 0o644)
		logw = f
	}
	s, err := NewSolver(solverKind, timeoutMs, logw)
	if err != nil {
		return nil, err
	}
	i.solver = s
	rt := p.prog.ImportedPackage("runtime")
	if rt == nil {
		return nil, fmt.Errorf("no runtime package")
	}
	i.runtimeErrorString = rt.Type("errorString").Object().Type()
	for _, pkg := range p.prog.AllPackages() {
		if initPackage(pkg.Pkg.Path()) {
			i.initPkgs[pkg] = true
		}
		for _, m := range pkg.Members {
			if g, ok := m.(*ssa.Global); ok {
				cell := zero(deref(g.Type()))
				i.globals[g] = &cell
			}
		}
	}
	// run initialisers (concrete)
	i.ps = newPathState(nil)
	i.ps.noDecide = true
	i.job = &Job{Params: map[string]int{}}
	var initErr error
	func() {
		defer func() {
			if r := recover(); r != nil {
				switch r := r.(type) {
				case pathEnd:
					initErr = fmt.Errorf("init: %s: %s", r.kind, r.msg)
				case targetPanic:
					initErr = fmt.Errorf("init panicked: %s", i.panicString(r.v))
				case engineBug:
					initErr = fmt.Errorf("init: engine bug: %s", r.msg)
				default:
					panic(r)
				}
			}
		}()
		i.call(nil, token.NoPos, p.harness.Func("init"), nil)
	}()
	if initErr != nil {
		return nil, initErr
	}
	i.undo = nil
	return i, nil
}

// ---------------------------------------------------------------------------------------------

type Evidence struct {
	PropertyID  string         `json:"property_id"`
	Tier        string         `json:"tier"`
	Seed        int            `json:"seed"`
	Level       string         `json:"level"`
	Coverage    map[string]any `json:"coverage"`
	Assumptions []string       `json:"assumptions"`
	WallS       float64        `json:"wall_s"`
	Violations  int            `json:"violations"`
}

func fatal(code int, format string, args ...any) {
	fmt.Fprintf(os.Stderr, format+"\n", args...)
	os.Exit(code)
}

func main() {
	debug.SetGCPercent(1000)
	debug.SetMemoryLimit(40 << 30)
	if len(os.Args) < 2 {
		fatal(2, "usage: symgo run|replay ...")
	}
	switch os.Args[1] {
	case "run":
		os.Exit(cmdRun(os.Args[2:]))
	case "job":
		os.Exit(cmdJob(os.Args[2:]))
	case "replay":
		if len(os.Args) < 3 {
			fatal(2, "usage: symgo replay <witness.json>")
		}
		rr := replayNative(os.Args[2])
		fmt.Printf("native replay: %s %s\n", rr.outcome, rr.detail)
		if rr.outcome == "OK" || rr.outcome == "ASSUME" {
			os.Exit(0)
		}
		os.Exit(1)
	default:
		fatal(2, "unknown command %s", os.Args[1])
	}
}

// cmdJob runs a single harness with explicit params (development aid).
func cmdJob(args []string) int {
	fs := flag.NewFlagSet("job", flag.ExitOnError)
	trace := fs.Bool("trace", false, "trace instructions")
	maxPaths := fs.Int("maxpaths", 100000, "")
	fs.Parse(args)
	rest := fs.Args()
	if len(rest) < 1 {
		fatal(2, "usage: symgo job Harness k=v ...")
	}
	job := &Job{Harness: rest[0], Params: map[string]int{}}
	for _, kv := range rest[1:] {
		var k string
		var v int
		parts := strings.SplitN(kv, "=", 2)
		k = parts[0]
		fmt.Sscan(parts[1], &v)
		job.Params[k] = v
	}
	t0 := time.Now()
	p, err := loadProgram()
	if err != nil {
		fatal(2, "load: %v", err)
	}
	fmt.Fprintf(os.Stderr, "loaded in %.1fs\n", time.Since(t0).Seconds())
	i, err := NewInterp(p, "z3", 10000)
	if err != nil {
		fatal(2, "interp: %v", err)
	}
	i.trace = *trace
	setup, run := findHarness(p, job.Harness)
	if run == nil {
		fatal(2, "harness %s not found", job.Harness)
	}
	t1 := time.Now()
	res := i.Explore(job, setup, run, Limits{MaxSteps: 50_000_000, MaxDecisions: 5000, MaxPaths: *maxPaths, MaxViolations: 20, Samples: 3, SampleEvery: 100}, nil, nil, nil)
	fmt.Printf("job %s: paths=%d assume-ends=%d decisions=%d steps=%d queries=%d solver=%.2fs wall=%.2fs\n", job, res.Paths, res.AssumeEnds, res.Decisions, res.Steps, i.solver.Queries, i.solver.Time.Seconds(), time.Since(t1).Seconds())
	for c, n := range res.Covers {
		fmt.Printf("  cover %q: %d paths\n", c, n)
	}
	for _, v := range res.Violations {
		fmt.Printf("  VIOL %s: %s at %s :: %s\n", v.Kind, v.Msg, v.Pos, v.Witness.Describe())
	}
	for k, m := range res.Inconcl {
		if k > 10 {
			break
		}
		fmt.Printf("  INCONCLUSIVE %s\n", m)
	}
	return 0
}

func findHarness(p *Program, name string) (setup, run *ssa.Function) {
	run = p.harness.Func("Harness" + name)
	setup = p.harness.Func("Setup" + name)
	return
}

var _ = json.Marshal
var _ = exec.Command
var _ = filepath.Join
var _ = sort.Strings
var _ sync.Mutex
