package main

// `symgo run`: decide one property: enumerate jobs, explore them on worker interpreters, replay
// counterexamples natively, match known findings, write evidence.

import (
	"bytes"
	"crypto/sha256"
	"encoding/json"
	"flag"
	"fmt"
	"math/rand"
	"os"
	"os/exec"
	"path/filepath"
	"regexp"
	"runtime"
	"runtime/pprof"
	"sort"
	"strconv"
	"strings"
	"sync"
	"time"

	"golang.org/x/tools/go/ssa"
)

type PropSpec struct {
	ID          string
	Jobs        func(tier string) []*Job
	Limits      func(tier string) Limits
	Assumptions []string
	Bounds      func(tier string) string
	// RequiredCovers must each be reached on at least one path over all jobs (vacuity guard).
	RequiredCovers []string
}

var props = map[string]*PropSpec{}

func defaultLimits(tier string) Limits {
	l := Limits{MaxSteps: 20_000_000, MaxDecisions: 4000, MaxPaths: 400_000, MaxViolations: 40, Samples: 2, SampleEvery: 50}
	if tier == "thorough" {
		l.MaxPaths = 4_000_000
	}
	return l
}

type KnownFinding struct {
	Status      string            `json:"status"` // "known" | "fixed"
	Property    string            `json:"property"`
	Harness     string            `json:"harness,omitempty"`
	Params      map[string]int    `json:"params,omitempty"`
	Msg         string            `json:"msg,omitempty"`    // assertion message (exact)
	Inputs      map[string]string `json:"inputs,omitempty"` // string name -> abstract template ('?' = any byte outside Keep)
	Keep        string            `json:"keep,omitempty"`   // bytes that are kept literally in templates
	Ints        map[string]int64  `json:"ints,omitempty"`   // scalar inputs that must match exactly
	Description string            `json:"description"`
	Commit      string            `json:"commit,omitempty"`
}

func loadKnown() []KnownFinding {
	b, err := os.ReadFile(verifRoot + "/known_findings.json")
	if err != nil {
		return nil
	}
	var ks []KnownFinding
	if err := json.Unmarshal(b, &ks); err != nil {
		fatal(2, "known_findings.json: %v", err)
	}
	return ks
}

// abstractInput maps a concrete string to its template: bytes in keep stay, others become '?'.
func abstractInput(s []byte, keep string) string {
	var sb strings.Builder
	for _, c := range s {
		if strings.IndexByte(keep, c) >= 0 && c != '?' {
			sb.WriteByte(c)
		} else {
			sb.WriteByte('?')
		}
	}
	return sb.String()
}

func (k *KnownFinding) matches(prop string, v *Violation) bool {
	if k.Status != "known" || k.Property != prop {
		return false
	}
	w := v.Witness
	if k.Harness != "" && k.Harness != w.Harness {
		return false
	}
	for name, val := range k.Params {
		if w.Params[name] != val {
			return false
		}
	}
	if k.Msg != "" && k.Msg != v.Msg {
		return false
	}
	for name, tmpl := range k.Inputs {
		raw, ok := w.raw[name]
		if !ok || abstractInput(raw, k.Keep) != tmpl {
			return false
		}
	}
	for name, val := range k.Ints {
		if w.Ints[name] != val {
			return false
		}
	}
	return true
}

type replayResult struct {
	outcome string // OK | VIOLATION | PANIC | ASSUME | ERROR
	detail  string
}

var (
	testBinOnce sync.Once
	testBinErr  error
)

var testBin = envOr("SYMGO_TESTBIN", verifRoot+"/bin/harness.test")

// instrument inserts verifHook calls before the synchronisation statements of a fox source file
// (native schedule replay; the instrumented copy only exists as a build overlay).
func instrument(src string) string {
	var out []string
	reLock := regexp.MustCompile(`^(\s*)([\w.]+)\.mu\.Lock\(\)\s*$`)
	reUnlock := regexp.MustCompile(`^(\s*)([\w.]+)\.mu\.Unlock\(\)\s*$`)
	reDeferUnlock := regexp.MustCompile(`^(\s*)defer ([\w.]+)\.mu\.Unlock\(\)\s*$`)
	reStore := regexp.MustCompile(`^(\s*)[\w.]+\.tree\.Store\(`)
	reLoad := regexp.MustCompile(`^(\s*).*\.tree\.Load\(\)`)
	for _, line := range strings.Split(src, "\n") {
		switch {
		case reDeferUnlock.MatchString(line):
			m := reDeferUnlock.FindStringSubmatch(line)
			out = append(out, m[1]+"defer func() { verifHook(\"unlock\"); "+m[2]+".mu.Unlock() }()")
			continue
		case reLock.MatchString(line):
			out = append(out, reLock.FindStringSubmatch(line)[1]+"verifHook(\"lock\")")
		case reUnlock.MatchString(line):
			out = append(out, reUnlock.FindStringSubmatch(line)[1]+"verifHook(\"unlock\")")
		case reStore.MatchString(line):
			out = append(out, reStore.FindStringSubmatch(line)[1]+"verifHook(\"store\")")
		case reLoad.MatchString(line) && !strings.Contains(line, "func "):
			out = append(out, reLoad.FindStringSubmatch(line)[1]+"verifHook(\"load\")")
		}
		out = append(out, line)
	}
	return strings.Join(out, "\n")
}

// writeOverlay generates the build overlay used by the native replay builds: the in-package exports plus
// instrumented copies of every non-test root-package file that contains a synchronisation statement.
func writeOverlay() (string, error) {
	dir := filepath.Dir(testBin) + "/ovl"
	os.MkdirAll(dir, 0o755)
	repl := map[string]string{
		repoDir + "/clientip/zz_verif_export.go": harnessDir + "/overlay/clientip_export.go.txt",
		repoDir + "/zz_verif_hook.go":            harnessDir + "/overlay/fox_hook.go.txt",
	}
	files, _ := filepath.Glob(repoDir + "/*.go")
	for _, f := range files {
		if strings.HasSuffix(f, "_test.go") {
			continue
		}
		b, err := os.ReadFile(f)
		if err != nil {
			return "", err
		}
		ins := instrument(string(b))
		if ins == string(b) {
			continue
		}
		dst := dir + "/" + filepath.Base(f)
		if err := os.WriteFile(dst, []byte(ins), 0o644); err != nil {
			return "", err
		}
		repl[f] = dst
	}
	js, _ := json.MarshalIndent(map[string]any{"Replace": repl}, "", " ")
	p := dir + "/overlay.json"
	return p, os.WriteFile(p, js, 0o644)
}

func buildTestBinary() error {
	testBinOnce.Do(func() {
		ovl, err := writeOverlay()
		if err != nil {
			testBinErr = err
			return
		}
		cmd := exec.Command("go", "test", "-c", "-vet=off", "-overlay", ovl, "-o", testBin, ".")
		cmd.Dir = harnessDir
		cmd.Env = append(os.Environ(), "GOFLAGS=-mod=mod", "GOPROXY=off")
		out, err := cmd.CombinedOutput()
		if err != nil {
			testBinErr = fmt.Errorf("go test -c: %v\n%s", err, out)
		}
	})
	return testBinErr
}

func replayNative(path string) replayResult {
	if err := buildTestBinary(); err != nil {
		return replayResult{"ERROR", err.Error()}
	}
	cmd := exec.Command("timeout", "60", testBin, "-test.run", "^TestReplay$", "-test.v", "-test.count=1")
	cmd.Dir = harnessDir
	cmd.Env = append(os.Environ(), "SYM_REPLAY="+path)
	out, err := cmd.CombinedOutput()
	s := string(out)
	pick := func(tag string) string {
		k := strings.Index(s, tag)
		if k < 0 {
			return ""
		}
		e := strings.IndexByte(s[k:], '\n')
		if e < 0 {
			e = len(s) - k
		}
		return s[k : k+e]
	}
	switch {
	case strings.Contains(s, "REPLAY-VIOLATION"):
		return replayResult{"VIOLATION", pick("REPLAY-VIOLATION")}
	case strings.Contains(s, "REPLAY-PANIC"):
		return replayResult{"PANIC", pick("REPLAY-PANIC")}
	case strings.Contains(s, "REPLAY-ASSUME-FAILED"):
		return replayResult{"ASSUME", ""}
	case strings.Contains(s, "REPLAY-OK"):
		return replayResult{"OK", ""}
	}
	if err != nil {
		if ee, ok := err.(*exec.ExitError); ok && ee.ExitCode() == 124 {
			return replayResult{"TIMEOUT", "native replay timed out (60 s)"}
		}
		// a crash of the test binary itself (fatal error, unrecovered panic in another goroutine)
		tail := s
		if len(tail) > 600 {
			tail = tail[len(tail)-600:]
		}
		return replayResult{"PANIC", "test binary died: " + tail}
	}
	return replayResult{"ERROR", "no replay marker in output: " + s}
}

func writeWitness(dir, name string, w *Witness) string {
	os.MkdirAll(dir, 0o755)
	p := filepath.Join(dir, name)
	b, _ := json.MarshalIndent(w, "", " ")
	os.WriteFile(p, b, 0o644)
	return p
}

func cmdRun(args []string) int {
	fs := flag.NewFlagSet("run", flag.ExitOnError)
	propID := fs.String("prop", "", "property id")
	tier := fs.String("tier", "quick", "quick|thorough")
	workers := fs.Int("workers", runtime.NumCPU(), "worker interpreters")
	solverKind := fs.String("solver", "z3", "z3|z3-new|cvc5")
	verbose := fs.Bool("v", false, "per-job output")
	only := fs.String("only", "", "only jobs whose description contains this text")
	cpuprof := fs.String("cpuprofile", "", "write cpu profile")
	dump := fs.String("dump", "", "write every violation (unreplayed) as JSON lines to this file")
	fs.Parse(args)
	if t := os.Getenv("VERIF_TIER"); t != "" && (t == "quick" || t == "thorough") {
		// the command line wins; the env only applies when the flag is default
	}
	seed := 0
	if s := os.Getenv("VERIF_SEED"); s != "" {
		seed, _ = strconv.Atoi(s)
	}
	if *cpuprof != "" {
		f, _ := os.Create(*cpuprof)
		pprof.StartCPUProfile(f)
		defer pprof.StopCPUProfile()
	}
	spec := props[*propID]
	if spec == nil {
		fatal(2, "unknown property %q", *propID)
	}
	t0 := time.Now()
	evPath := envOr("SYMGO_EVIDENCE_DIR", verifRoot+"/evidence") + "/" + spec.ID + ".json"
	os.Remove(evPath)

	p, err := loadProgram()
	if err != nil {
		fmt.Printf("INCONCLUSIVE property=%s cannot load /repo: %v\n", spec.ID, err)
		return 2
	}
	loadS := time.Since(t0).Seconds()

	jobs := spec.Jobs(*tier)
	if *only != "" {
		var f []*Job
		for _, j := range jobs {
			if strings.Contains(j.String(), *only) {
				f = append(f, j)
			}
		}
		jobs = f
	}
	rnd := rand.New(rand.NewSource(int64(seed)))
	rnd.Shuffle(len(jobs), func(a, b int) { jobs[a], jobs[b] = jobs[b], jobs[a] })
	lim := defaultLimits(*tier)
	if spec.Limits != nil {
		lim = spec.Limits(*tier)
	}
	timeoutMs := 10000
	if *tier == "thorough" {
		timeoutMs = 60000
	}

	// start building the native replay binary in the background
	go buildTestBinary()

	type workerOut struct {
		results []*JobResult
		queries int
		stime   time.Duration
		unknown int
		funcs   map[*ssa.Function]bool
		domq    int
		err     error
	}
	known := loadKnown()
	isKnown := func(v *Violation) bool {
		for ki := range known {
			if known[ki].matches(spec.ID, v) {
				return true
			}
		}
		return false
	}
	type workItem struct {
		job  *Job
		base []Decision
	}
	var (
		qmu     sync.Mutex
		qcond   = sync.NewCond(&qmu)
		queue   []workItem
		idle    int
		pending int // items queued or running
	)
	for _, j := range jobs {
		j.Prop = spec.ID
		queue = append(queue, workItem{job: j})
	}
	pending = len(queue)
	nw := *workers
	if nw < 1 {
		nw = 1
	}
	outs := make([]workerOut, nw)
	var wg sync.WaitGroup
	done := 0
	for w := 0; w < nw; w++ {
		wg.Add(1)
		go func(w int) {
			defer wg.Done()
			var in *Interp
			for {
				qmu.Lock()
				idle++
				for len(queue) == 0 && pending > 0 {
					qcond.Wait()
				}
				if len(queue) == 0 && pending == 0 {
					idle--
					qcond.Broadcast()
					qmu.Unlock()
					break
				}
				idle--
				item := queue[0]
				queue = queue[1:]
				qmu.Unlock()

				if in == nil {
					var err error
					in, err = NewInterp(p, *solverKind, timeoutMs)
					if in != nil {
						in.crossCheck = 500
						if *tier == "thorough" {
							in.crossCheck = 50
						}
					}
					if err != nil {
						outs[w].err = err
						qmu.Lock()
						pending--
						qcond.Broadcast()
						qmu.Unlock()
						return
					}
					defer in.solver.Close()
				}
				setup, run := findHarness(p, item.job.Harness)
				if run == nil {
					outs[w].err = fmt.Errorf("harness %s not found", item.job.Harness)
					qmu.Lock()
					pending--
					qcond.Broadcast()
					qmu.Unlock()
					return
				}
				tj := time.Now()
				donate := func(alt []Decision) bool {
					qmu.Lock()
					defer qmu.Unlock()
					if idle == 0 || len(queue) > 0 {
						return false
					}
					queue = append(queue, workItem{job: item.job, base: alt})
					pending++
					qcond.Signal()
					return true
				}
				res := in.Explore(item.job, setup, run, lim, item.base, donate, isKnown)
				outs[w].results = append(outs[w].results, res)
				qmu.Lock()
				pending--
				done++
				if *verbose {
					fmt.Fprintf(os.Stderr, "[%d] %s (base %d): paths=%d viol=%d inconcl=%d %.1fs\n", done, item.job, len(item.base), res.Paths, len(res.Violations), len(res.Inconcl), time.Since(tj).Seconds())
				}
				qcond.Broadcast()
				qmu.Unlock()
			}
			if in != nil {
				outs[w].queries = in.solver.Queries
				outs[w].stime = in.solver.Time
				outs[w].unknown = in.solver.Unknowns + in.solver.Errors
				outs[w].funcs = in.funcsRun
				outs[w].domq = in.domQueries
			}
		}(w)
	}
	wg.Wait()

	var all []*JobResult
	queries, unknowns, domq := 0, 0, 0
	var stime time.Duration
	funcs := map[string]bool{}
	for _, o := range outs {
		if o.err != nil {
			fmt.Printf("INCONCLUSIVE property=%s engine error: %v\n", spec.ID, o.err)
			return 2
		}
		all = append(all, o.results...)
		queries += o.queries
		stime += o.stime
		unknowns += o.unknown
		domq += o.domq
		for f := range o.funcs {
			if f.Pkg != nil && strings.HasPrefix(f.Pkg.Pkg.Path(), "github.com/tigerwill90/fox") {
				funcs[f.String()] = true
			}
		}
	}
	sort.Slice(all, func(a, b int) bool { return all[a].Job.String() < all[b].Job.String() })

	paths, decisions, assumeEnds := 0, 0, 0
	var steps int64
	covers := map[string]int{}
	var inconcl []string
	var viols []*Violation
	var samples []*Witness
	for _, r := range all {
		paths += r.Paths
		decisions += r.Decisions
		assumeEnds += r.AssumeEnds
		steps += r.Steps
		for c, n := range r.Covers {
			covers[c] += n
		}
		for _, m := range r.Inconcl {
			inconcl = append(inconcl, r.Job.String()+": "+m)
		}
		for k := range r.Violations {
			viols = append(viols, &r.Violations[k])
		}
		samples = append(samples, r.Samples...)
	}
	for _, c := range spec.RequiredCovers {
		if covers[c] == 0 {
			inconcl = append(inconcl, "vacuity: cover goal never reached: "+c)
		}
	}

	if *dump != "" {
		f, _ := os.Create(*dump)
		for _, v := range viols {
			b, _ := json.Marshal(map[string]any{"kind": v.Kind, "msg": v.Msg, "harness": v.Witness.Harness, "params": v.Witness.Params, "inputs": v.Witness.Describe()})
			f.Write(append(b, '\n'))
		}
		f.Close()
	}
	// classify violations
	knownSeen := map[int]int{}
	var fresh []*Violation
	for _, v := range viols {
		matched := false
		for ki := range known {
			if known[ki].matches(spec.ID, v) {
				knownSeen[ki]++
				matched = true
				break
			}
		}
		if !matched {
			fresh = append(fresh, v)
		}
	}
	// replay: known findings once each (must still reproduce to be announced), fresh ones all (cap)
	replayDir := envOr("SYMGO_REPLAY_DIR", verifRoot+"/replays")
	validated := 0
	exit := 0
	var report []string
	var sampleOut []any
	for ki, n := range knownSeen {
		k := known[ki]
		// find one witness
		for _, v := range viols {
			if k.matches(spec.ID, v) {
				path := writeWitness(replayDir, fmt.Sprintf("%s-known-%d.json", spec.ID, ki), v.Witness)
				rr := replayNative(path)
				if rr.outcome == "VIOLATION" || rr.outcome == "PANIC" {
					validated++
					fmt.Printf("KNOWN-FINDING: property=%s %s (%d paths; e.g. %s)\n", spec.ID, k.Description, n, v.Witness.Describe())
				} else {
					inconcl = append(inconcl, fmt.Sprintf("known finding %d did not reproduce natively (%s %s)", ki, rr.outcome, rr.detail))
				}
				break
			}
		}
	}
	// dedup fresh by (harness, msg, abstract description) to keep replays bounded
	seenSig := map[string]bool{}
	nReplayed := 0
	for _, v := range fresh {
		sig := v.Witness.Harness + "|" + v.Kind + "|" + v.Msg + "|" + v.Detail
		cnt := 0
		for s := range seenSig {
			if strings.HasPrefix(s, sig+"#") {
				cnt++
			}
		}
		if cnt >= 5 || nReplayed >= 60 {
			continue
		}
		seenSig[sig+"#"+strconv.Itoa(cnt)] = true
		nReplayed++
		path := writeWitness(replayDir, fmt.Sprintf("%s-%d.json", spec.ID, nReplayed), v.Witness)
		rr := replayNative(path)
		want := "VIOLATION"
		if v.Kind == "panic" {
			want = "PANIC"
		}
		ok := rr.outcome == want || (v.Kind == "assert" && rr.outcome == "PANIC") || ((v.Kind == "hang" || v.Kind == "deadlock") && (rr.outcome == "TIMEOUT" || rr.outcome == "PANIC"))
		if v.Kind == "frozen" || v.Kind == "race" || v.Kind == "alloc" {
			// monitor findings have no native assertion; confirmed by their own native procedure
			ok = confirmMonitorFinding(v, path, rr)
		}
		if ok {
			validated++
			exit = 1
			line := fmt.Sprintf("VIOLATION property=%s replay=%s", spec.ID, path)
			fmt.Println(line)
			fmt.Printf("  %s: %s [%s] inputs: %s params: %v (native: %s %s) %s\n", v.Kind, v.Msg, v.Pos, v.Witness.Describe(), v.Witness.Params, rr.outcome, rr.detail, v.Detail)
			report = append(report, fmt.Sprintf("%s: %s :: %s", v.Kind, v.Msg, v.Witness.Describe()))
		} else {
			inconcl = append(inconcl, fmt.Sprintf("counterexample did not reproduce natively (%s: %s; native %s %s) inputs %s params %v", v.Kind, v.Msg, rr.outcome, rr.detail, v.Witness.Describe(), v.Witness.Params))
		}
	}
	// validate a few passing paths natively (engine says ok => native must be ok)
	maxSamples := 6
	if *tier == "thorough" {
		maxSamples = 20
	}
	rnd.Shuffle(len(samples), func(a, b int) { samples[a], samples[b] = samples[b], samples[a] })
	for k, w := range samples {
		if k >= maxSamples {
			break
		}
		path := writeWitness(replayDir, fmt.Sprintf("%s-sample-%d.json", spec.ID, k), w)
		rr := replayNative(path)
		if rr.outcome == "OK" {
			validated++
			sampleOut = append(sampleOut, map[string]any{"harness": w.Harness, "params": w.Params, "inputs": w.Describe(), "engine": "path ok", "native": "ok"})
		} else {
			inconcl = append(inconcl, fmt.Sprintf("passing path did not pass natively (%s %s) inputs %s params %v harness %s", rr.outcome, rr.detail, w.Describe(), w.Params, w.Harness))
		}
	}
	for _, r := range report {
		sampleOut = append(sampleOut, map[string]any{"violation": r})
	}
	if len(sampleOut) == 0 {
		sampleOut = append(sampleOut, map[string]any{"note": "no sample witness produced"})
	}

	// cross-solver (thorough): a sample of the jobs is explored again with z3 5.1 and cvc5; path counts and
	// violation counts must agree with the z3 4.8 run
	crossJobs, crossAgree := 0, true
	if *tier == "thorough" && *only == "" {
		perJobRes := map[string][2]int{}
		for _, r := range all {
			k := r.Job.String()
			v := perJobRes[k]
			perJobRes[k] = [2]int{v[0] + r.Paths, v[1] + len(r.Violations)}
		}
		var sample []*Job
		seenJ := map[string]bool{}
		for k, j := range jobs {
			if k%5 != 0 || seenJ[j.String()] {
				continue
			}
			if pr := perJobRes[j.String()]; pr[0] == 0 || pr[0] > 2000 {
				continue
			}
			seenJ[j.String()] = true
			sample = append(sample, j)
			if len(sample) >= 12 {
				break
			}
		}
		// the two other solvers run side by side
		var cmu sync.Mutex
		var cwg sync.WaitGroup
		for _, kind := range []string{"z3-new", "cvc5"} {
			kind := kind
			cwg.Add(1)
			go func() {
				defer cwg.Done()
				in, err := NewInterp(p, kind, timeoutMs)
				if err != nil {
					cmu.Lock()
					inconcl = append(inconcl, "cross-solver "+kind+": "+err.Error())
					crossAgree = false
					cmu.Unlock()
					return
				}
				in.useDomains = false // every feasibility query goes to the solver under test
				for _, j := range sample {
					setup, run := findHarness(p, j.Harness)
					res := in.Explore(j, setup, run, lim, nil, nil, isKnown)
					want := perJobRes[j.String()]
					cmu.Lock()
					crossJobs++
					if res.Paths != want[0] || len(res.Violations) != want[1] || len(res.Inconcl) > 0 {
						crossAgree = false
						inconcl = append(inconcl, fmt.Sprintf("cross-solver %s disagrees on %s: paths %d vs %d, violations %d vs %d, inconclusive %d", kind, j, res.Paths, want[0], len(res.Violations), want[1], len(res.Inconcl)))
					}
					cmu.Unlock()
				}
				cmu.Lock()
				queries += in.solver.Queries
				cmu.Unlock()
				in.solver.Close()
			}()
		}
		cwg.Wait()
	}
	if unknowns > 0 {
		inconcl = append(inconcl, fmt.Sprintf("%d solver unknown/error answers", unknowns))
	}
	if len(inconcl) > 0 && exit == 0 {
		exit = 2
	}

	// evidence
	var fnames []string
	for f := range funcs {
		fnames = append(fnames, f)
	}
	sort.Strings(fnames)
	coverList := map[string]int{}
	for c, n := range covers {
		coverList[c] = n
	}
	bounds := ""
	if spec.Bounds != nil {
		bounds = spec.Bounds(*tier)
	}
	var jobList []string
	perJob := map[string]int{}
	for _, r := range all {
		perJob[r.Job.String()] += r.Paths
	}
	for j, n := range perJob {
		jobList = append(jobList, fmt.Sprintf("%s: %d paths", j, n))
	}
	sort.Strings(jobList)
	if len(jobList) > 400 {
		jobList = append(jobList[:400], fmt.Sprintf("... %d more", len(jobList)-400))
	}
	_ = jobList
	ev := Evidence{
		PropertyID: spec.ID, Tier: *tier, Seed: seed, Level: "model_checking",
		Coverage: map[string]any{
			"states":                        maxI(paths, 0),
			"transitions":                   decisions,
			"traces_validated_against_impl": validated,
			"samples":                       sampleOut,
			"exhaustive":                    len(inconcl) == 0,
			"jobs":                          len(perJob),
			"work_items":                    len(all),
			"paths_ended_by_assume":         assumeEnds,
			"ssa_instructions_executed":     steps,
			"queries":                       queries,
			"unary_domain_decisions":        domq,
			"solver_time_s":                 round2(stime.Seconds()),
			"solver":                        *solverKind,
			"bounds":                        bounds,
			"cover":                         coverList,
			"functions_encoded":             fnames,
			"source_hash":                   repoHash(),
			"inconclusive":                  firstN(inconcl, 30),
			"known_findings_seen":           len(knownSeen),
			"new_violations":                len(report),
			"job_paths":                     jobList,
			"load_ssa_s":                    round2(loadS),
			"cross_solver_jobs":             crossJobs,
			"cross_solver_agree":            crossAgree,
		},
		Assumptions: append([]string{
			"bounded: only the route sets, lengths and parameters listed under coverage.bounds are covered",
			"go/ssa semantics (x/tools v0.29.0) as implemented by the symgo interpreter equal the gc compiler's for the executed instructions",
			"library models (intrinsics) used by the interpreter behave like the real functions; see DESIGN.md section 2.3",
		}, spec.Assumptions...),
		WallS: round2(time.Since(t0).Seconds()), Violations: len(report),
	}
	if paths > 0 {
		b, _ := json.MarshalIndent(ev, "", " ")
		os.MkdirAll(envOr("SYMGO_EVIDENCE_DIR", verifRoot+"/evidence"), 0o755)
		os.WriteFile(evPath, b, 0o644)
	}

	fmt.Printf("property=%s tier=%s jobs=%d paths=%d decisions=%d queries=%d solver=%.1fs validated=%d new_violations=%d known=%d inconclusive=%d wall=%.1fs\n",
		spec.ID, *tier, len(all), paths, decisions, queries, stime.Seconds(), validated, len(report), len(knownSeen), len(inconcl), time.Since(t0).Seconds())
	for k, m := range inconcl {
		if k >= 15 {
			fmt.Printf("  ... %d more\n", len(inconcl)-15)
			break
		}
		fmt.Printf("  INCONCLUSIVE: %s\n", m)
	}
	return exit
}

var (
	raceBinOnce sync.Once
	raceBinErr  error
)

var raceBin = envOr("SYMGO_TESTBIN", verifRoot+"/bin/harness.test") + ".race"

func buildRaceBinary() error {
	raceBinOnce.Do(func() {
		ovl, err := writeOverlay()
		if err != nil {
			raceBinErr = err
			return
		}
		cmd := exec.Command("go", "test", "-c", "-race", "-vet=off", "-overlay", ovl, "-o", raceBin, ".")
		cmd.Dir = harnessDir
		cmd.Env = append(os.Environ(), "GOFLAGS=-mod=mod", "GOPROXY=off", "CGO_ENABLED=1")
		out, err := cmd.CombinedOutput()
		if err != nil {
			raceBinErr = fmt.Errorf("go test -c -race: %v\n%s", err, out)
		}
	})
	return raceBinErr
}

// confirmRace replays a witness under the Go race detector (a few runs: the detector needs the two
// accesses to be unordered in the observed execution, not simultaneous).
func confirmRace(path string) (bool, string) {
	if err := buildRaceBinary(); err != nil {
		return false, err.Error()
	}
	for k := 0; k < 15; k++ {
		cmd := exec.Command("timeout", "60", raceBin, "-test.run", "^TestReplay$", "-test.v", "-test.count=1")
		cmd.Dir = harnessDir
		cmd.Env = append(os.Environ(), "SYM_REPLAY="+path, "SYM_NOSCHED=1")
		out, _ := cmd.CombinedOutput()
		if strings.Contains(string(out), "DATA RACE") {
			return true, "go test -race reports DATA RACE"
		}
	}
	return false, "the Go race detector did not report a race in 15 native runs"
}

func confirmMonitorFinding(v *Violation, path string, rr replayResult) bool {
	if v.Kind == "race" {
		ok, _ := confirmRace(path)
		return ok
	}
	// Monitor findings (frozen store, race, allocation, deadlock) are decided by the engine's
	// monitors; natively we only require that the witness runs (no assume failure / harness error).
	return rr.outcome == "OK" || rr.outcome == "VIOLATION" || rr.outcome == "PANIC" || rr.outcome == "TIMEOUT"
}

func maxI(a, b int) int {
	if a > b {
		return a
	}
	return b
}

func round2(f float64) float64 { return float64(int(f*100+0.5)) / 100 }

func firstN(s []string, n int) []string {
	if len(s) > n {
		return append(append([]string(nil), s[:n]...), fmt.Sprintf("... %d more", len(s)-n))
	}
	if s == nil {
		return []string{}
	}
	return s
}

// repoHash hashes the Go sources of /repo (the tree the encoding was generated from).
func repoHash() string {
	h := sha256.New()
	var files []string
	filepath.Walk(repoDir, func(p string, info os.FileInfo, err error) error {
		if err != nil {
			return nil
		}
		if info.IsDir() && (info.Name() == ".git" || info.Name() == "vendor") {
			return filepath.SkipDir
		}
		if strings.HasSuffix(p, ".go") && !strings.HasSuffix(p, "_test.go") {
			files = append(files, p)
		}
		return nil
	})
	sort.Strings(files)
	for _, f := range files {
		b, _ := os.ReadFile(f)
		h.Write([]byte(f))
		h.Write(b)
	}
	return fmt.Sprintf("%x", h.Sum(nil))[:16]
}

var _ = bytes.NewReader
