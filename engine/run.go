package main

func cmdRun(args []string) int { return 2 }
