package main

// Path exploration: decision vectors, re-execution DFS, feasibility checks, witnesses.

import (
	"encoding/base64"
	"fmt"
	"go/token"
	"sort"
	"strings"

	"golang.org/x/tools/go/ssa"
)

type Decision struct {
	Taken bool
	Done  bool // both alternatives explored (or the other one infeasible)
	Conc  bool // concretisation decision: cond is (t == Hint)
	Hint  uint64
	Cond  *Term
}

type inputVar struct {
	term *Term
	str  string // name of the string this byte belongs to ("" for scalars)
	idx  int
	name string
}

// Witness is a concrete input assignment (same JSON as harness/sym.witness).
type Witness struct {
	Harness string            `json:"harness"`
	Params  map[string]int    `json:"params"`
	Ints    map[string]int64  `json:"ints"`
	Strs    map[string]string `json:"strs"`
	Expect  string            `json:"expect,omitempty"`
	Note    string            `json:"note,omitempty"`
	raw     map[string][]byte
}

type Violation struct {
	Kind    string // assert | panic | frozen | race | deadlock | hang
	Msg     string
	Pos     string
	Detail  string // monitor detail (e.g. the allocation sites seen on this path); part of the de-duplication signature
	Witness *Witness
}

type PathState struct {
	prefix     []Decision
	trace      []Decision
	pin        map[*Term]*Term
	substMemo  map[*Term]*Term
	inputs     []inputVar
	strLens    map[string]int
	strOrder   []string
	covers     map[string]bool
	violations []Violation
	inconcl    []string
	noDecide   bool // setup phase: decisions forbidden
	dom        map[*Term]bitset
	multi      map[*Term]bool
	assumes    int
}

func newPathState(prefix []Decision) *PathState {
	return &PathState{prefix: prefix, pin: map[*Term]*Term{}, substMemo: map[*Term]*Term{},
		strLens: map[string]int{}, covers: map[string]bool{}, dom: map[*Term]bitset{}, multi: map[*Term]bool{}}
}

func (i *Interp) simp(t *Term) *Term {
	ps := i.ps
	if len(ps.pin) == 0 {
		return t
	}
	return i.ts.Subst(t, ps.pin, ps.substMemo)
}

// assertPC adds a constraint to the solver and records pins.
func (i *Interp) assertPC(c *Term) {
	if c.IsTrue() {
		return
	}
	i.solver.Assert(c)
	i.domAssert(c)
	i.pinFrom(c)
}

func (i *Interp) pinFrom(c *Term) {
	ps := i.ps
	add := func(v, k *Term) {
		if _, ok := ps.pin[v]; !ok {
			ps.pin[v] = k
			ps.substMemo = map[*Term]*Term{}
		}
	}
	switch c.op {
	case OpVar:
		add(c, i.ts.tt)
	case OpNot:
		if c.args[0].op == OpVar {
			add(c.args[0], i.ts.ff)
		}
	case OpAnd:
		i.pinFrom(c.args[0])
		i.pinFrom(c.args[1])
	case OpEq:
		a, b := c.args[0], c.args[1]
		if a.op == OpVar && b.IsConst() {
			add(a, b)
		} else if b.op == OpVar && a.IsConst() {
			add(b, a)
		}
	}
}

// decideKnown is decide for a condition whose two sides are known to be feasible (sym.Choose).
func (i *Interp) decideKnown(c *Term) bool {
	return i.decide2(c, true)
}

// decide resolves a symbolic branch condition on the current path.
func (i *Interp) decide(c *Term) bool {
	return i.decide2(c, false)
}

func (i *Interp) decide2(c *Term, bothFeasible bool) bool {
	c = i.simp(c)
	if c.IsTrue() {
		return true
	}
	if c.IsFalse() {
		return false
	}
	ps := i.ps
	if ps.noDecide {
		i.unsupported("symbolic decision during concrete setup at %s", i.where())
	}
	if i.threads != nil && i.threads.inAtomic == 0 {
		// nothing: decisions do not switch threads
	}
	k := len(ps.trace)
	if k < len(ps.prefix) {
		d := ps.prefix[k]
		if d.Cond != nil && d.Cond != c {
			panic(engineBug{fmt.Sprintf("nondeterministic replay at decision %d: %s vs %s (%s)", k, d.Cond, c, i.where())})
		}
		ps.trace = append(ps.trace, d)
		if d.Taken {
			i.assertPC(c)
		} else {
			i.assertPC(i.ts.Not(c))
		}
		return d.Taken
	}
	if len(ps.trace) >= i.maxDecisions {
		panic(pathEnd{kind: "budget", msg: "decision depth exceeded"})
	}
	d := Decision{Cond: c}
	if bothFeasible {
		d.Taken, d.Done = true, false
		ps.trace = append(ps.trace, d)
		i.assertPC(c)
		return true
	}
	r1 := i.feasible(c)
	if r1 == Unknown {
		ps.inconcl = append(ps.inconcl, "solver unknown on branch at "+i.where())
	}
	if r1 == Unsat {
		d.Taken, d.Done = false, true
	} else {
		r2 := i.feasible(i.ts.Not(c))
		if r2 == Unknown {
			ps.inconcl = append(ps.inconcl, "solver unknown on branch at "+i.where())
		}
		if r2 == Unsat {
			d.Taken, d.Done = true, true
		} else {
			d.Taken, d.Done = true, false
		}
	}
	ps.trace = append(ps.trace, d)
	if d.Taken {
		i.assertPC(c)
	} else {
		i.assertPC(i.ts.Not(c))
	}
	return d.Taken
}

// concretize picks a concrete value for t, exploring every feasible value on its own path.
func (i *Interp) concretize(t *Term) uint64 {
	ps := i.ps
	for n := 0; ; n++ {
		t = i.simp(t)
		if t.IsConst() {
			if t.op == OpTrue {
				return 1
			}
			return t.val
		}
		if ps.noDecide {
			i.unsupported("symbolic value concretised during concrete setup at %s", i.where())
		}
		if n > 300 {
			i.unsupported("concretisation fan-out > 300 at %s", i.where())
		}
		k := len(ps.trace)
		if k < len(ps.prefix) {
			d := ps.prefix[k]
			if !d.Conc {
				panic(engineBug{"nondeterministic replay (expected concretisation) at " + i.where()})
			}
			var c *Term
			if t.w == 0 {
				c = t
				if d.Hint == 0 {
					c = i.ts.Not(t)
				}
			} else {
				c = i.ts.Eq(t, i.ts.Const(d.Hint, t.w))
			}
			ps.trace = append(ps.trace, d)
			if d.Taken {
				i.assertPC(c)
				return d.Hint
			}
			i.assertPC(i.ts.Not(c))
			continue
		}
		if len(ps.trace) >= i.maxDecisions {
			panic(pathEnd{kind: "budget", msg: "decision depth exceeded"})
		}
		// fresh: ask for a model value
		if r := i.solver.Check(); r != Sat {
			ps.inconcl = append(ps.inconcl, "solver did not return sat for concretisation at "+i.where())
			panic(pathEnd{kind: "unsupported", msg: "concretisation without model"})
		}
		var vs []*Term
		t.Vars(map[*Term]bool{}, &vs)
		m := i.solver.Model(vs)
		v := t.Eval(m, map[*Term]uint64{})
		var c *Term
		if t.w == 0 {
			c = t
			if v == 0 {
				c = i.ts.Not(t)
			}
		} else {
			c = i.ts.Eq(t, i.ts.Const(v, t.w))
		}
		d := Decision{Conc: true, Hint: v, Taken: true, Cond: c}
		r2 := i.solver.CheckWith(i.ts.Not(c))
		if r2 == Unknown {
			ps.inconcl = append(ps.inconcl, "solver unknown on concretisation at "+i.where())
		}
		d.Done = r2 == Unsat
		ps.trace = append(ps.trace, d)
		i.assertPC(c)
		return v
	}
}

// freshVar declares a new input variable.
func (i *Interp) freshVar(name string, w int, str string, idx int) *Term {
	t := i.ts.Var(name, w)
	i.ps.inputs = append(i.ps.inputs, inputVar{term: t, str: str, idx: idx, name: name})
	return t
}

func smtName(s string) string {
	var sb strings.Builder
	for _, c := range s {
		if c >= 'a' && c <= 'z' || c >= 'A' && c <= 'Z' || c >= '0' && c <= '9' || c == '_' {
			sb.WriteRune(c)
		} else {
			sb.WriteByte('_')
		}
	}
	return sb.String()
}

// witness builds a concrete witness from the solver's current model (call right after a Sat check).
func (i *Interp) witness(job *Job) *Witness {
	ps := i.ps
	var vs []*Term
	for _, in := range ps.inputs {
		vs = append(vs, in.term)
	}
	m := i.solver.Model(vs)
	w := &Witness{Harness: job.Harness, Params: job.Params, Ints: map[string]int64{}, Strs: map[string]string{}, raw: map[string][]byte{}}
	for name, n := range ps.strLens {
		w.raw[name] = make([]byte, n)
	}
	for _, in := range ps.inputs {
		v := m[in.term]
		if in.str != "" {
			w.raw[in.str][in.idx] = byte(v)
		} else {
			w.Ints[in.name] = int64(v)
		}
	}
	for name, b := range w.raw {
		w.Strs[name] = base64.StdEncoding.EncodeToString(b)
	}
	return w
}

func (w *Witness) Describe() string {
	var parts []string
	var names []string
	for n := range w.raw {
		names = append(names, n)
	}
	sort.Strings(names)
	for _, n := range names {
		parts = append(parts, fmt.Sprintf("%s=%q", n, string(w.raw[n])))
	}
	names = names[:0]
	for n := range w.Ints {
		names = append(names, n)
	}
	sort.Strings(names)
	for _, n := range names {
		parts = append(parts, fmt.Sprintf("%s=%d", n, w.Ints[n]))
	}
	return strings.Join(parts, " ")
}

// ---------------------------------------------------------------------------------------------

type Job struct {
	Prop    string
	Harness string
	Params  map[string]int
	Known   []string // abstract inputs excluded/announced (property specific, interpreted by harness)
}

func (j *Job) String() string {
	var ks []string
	for k := range j.Params {
		ks = append(ks, k)
	}
	sort.Strings(ks)
	var sb strings.Builder
	sb.WriteString(j.Harness)
	for _, k := range ks {
		fmt.Fprintf(&sb, " %s=%d", k, j.Params[k])
	}
	return sb.String()
}

type JobResult struct {
	Job        *Job
	Paths      int
	AssumeEnds int
	Decisions  int
	Violations []Violation
	Inconcl    []string
	Covers     map[string]int
	Samples    []*Witness
	Steps      int64
	MaxDepth   int
	KnownCount int
	FreshCount int
	Dropped    int // violations beyond the per-signature cap (counted, witnesses not kept)
	sigCount   map[string]int
}

type pathOutcome struct {
	kind string // ok | assume | unsupported | budget | panic | bug
	msg  string
}

func (i *Interp) runPath(job *Job, fn *ssa.Function, args []value) (out pathOutcome) {
	defer func() {
		r := recover()
		if r == nil {
			return
		}
		switch r := r.(type) {
		case pathEnd:
			out = pathOutcome{kind: r.kind, msg: r.msg}
		case targetPanic:
			out = pathOutcome{kind: "panic", msg: i.panicString(r.v)}
		case engineBug:
			out = pathOutcome{kind: "bug", msg: r.msg}
		default:
			out = pathOutcome{kind: "bug", msg: fmt.Sprint(r)}
		}
	}()
	i.steps = 0
	i.depth = 0
	i.call(nil, token.NoPos, fn, args)
	return pathOutcome{kind: "ok"}
}

// panicString renders a target panic value.
func (i *Interp) panicString(v value) string {
	if f, ok := v.(iface); ok {
		if f.t == nil {
			return "panic(nil)"
		}
		if s, ok := f.v.(string); ok {
			return typeString(f.t) + ": " + s
		}
		// error values: try Error()
		if m := i.prog.LookupMethod(f.t, nil, "Error"); m != nil {
			func() {
				defer func() { recover() }()
				r := i.call(nil, token.NoPos, m, []value{f.v})
				if s, ok := r.(string); ok {
					v = s
				}
			}()
			if s, ok := v.(string); ok {
				return typeString(f.t) + ": " + s
			}
		}
		return typeString(f.t) + ": " + toString(f.v)
	}
	return toString(v)
}

// Explore runs every feasible path of one job.
func (i *Interp) Explore(job *Job, setup, run *ssa.Function, lim Limits, base []Decision, donate func([]Decision) bool, isKnown func(*Violation) bool) *JobResult {
	res := &JobResult{Job: job, Covers: map[string]int{}}
	i.job = job
	i.maxSteps = lim.MaxSteps
	i.maxDecisions = lim.MaxDecisions
	i.solver.Reset()
	mark0 := len(i.undo)
	defer i.rollback(mark0)

	var args []value
	if setup != nil {
		ps := newPathState(nil)
		ps.noDecide = true
		i.ps = ps
		var st value
		out := func() (out pathOutcome) {
			defer func() {
				if r := recover(); r != nil {
					switch r := r.(type) {
					case pathEnd:
						out = pathOutcome{kind: r.kind, msg: r.msg}
					case targetPanic:
						out = pathOutcome{kind: "panic", msg: i.panicString(r.v)}
					case engineBug:
						out = pathOutcome{kind: "bug", msg: r.msg}
					default:
						out = pathOutcome{kind: "bug", msg: fmt.Sprint(r)}
					}
				}
			}()
			i.steps = 0
			st = i.call(nil, token.NoPos, setup, nil)
			return pathOutcome{kind: "ok"}
		}()
		if out.kind != "ok" {
			res.Inconcl = append(res.Inconcl, "setup failed: "+out.kind+": "+out.msg)
			return res
		}
		args = []value{st}
	} else if run.Signature.Params().Len() == 1 {
		args = []value{iface{}}
	}
	mark := len(i.undo)

	prefix := append([]Decision(nil), base...)
	for k := range prefix {
		prefix[k].Cond = nil
		prefix[k].Done = true
	}
	nbase := len(prefix)
	for {
		ps := newPathState(prefix)
		i.ps = ps
		i.frozen = nil
		i.frozenHits = nil
		i.allocEvents = 0
		i.allocLog = nil
		i.allocTrack = false
		i.poolChoice = false
		i.poolSeq = 0
		i.threads = nil
		i.solver.Push()
		out := i.runPath(job, run, args)
		var races []string
		if i.threads != nil {
			i.threads.killAll()
			races = i.threads.races
			i.threads = nil
		}
		res.Paths++
		res.Steps += i.steps
		res.Decisions += len(ps.trace)
		if len(ps.trace) > res.MaxDepth {
			res.MaxDepth = len(ps.trace)
		}
		for c := range ps.covers {
			res.Covers[c]++
		}
		res.Inconcl = append(res.Inconcl, ps.inconcl...)
		if len(races) > 0 && out.kind != "bug" {
			if i.solver.Check() == Sat {
				ps.violations = append(ps.violations, Violation{Kind: "race", Msg: races[0], Witness: i.witness(job)})
			}
		}
		switch out.kind {
		case "ok":
			if len(i.frozenHits) > 0 {
				if i.solver.Check() == Sat {
					ps.violations = append(ps.violations, Violation{Kind: "frozen", Msg: i.frozenHits[0], Witness: i.witness(job)})
				}
			}
			if len(res.Samples) < lim.Samples && (res.Paths == 1 || res.Paths%lim.SampleEvery == 0) {
				if i.solver.Check() == Sat {
					w := i.witness(job)
					w.Expect = "ok"
					res.Samples = append(res.Samples, w)
				}
			}
		case "assume":
			res.AssumeEnds++
		case "panic":
			if i.solver.Check() == Sat {
				ps.violations = append(ps.violations, Violation{Kind: "panic", Msg: "uncaught panic: " + out.msg, Pos: i.where(), Witness: i.witness(job)})
			} else {
				res.Inconcl = append(res.Inconcl, "panic path without model: "+out.msg)
			}
		case "stop":
		case "deadlock":
			if i.solver.Check() == Sat {
				ps.violations = append(ps.violations, Violation{Kind: "deadlock", Msg: out.msg, Pos: i.where(), Witness: i.witness(job)})
			} else {
				res.Inconcl = append(res.Inconcl, "deadlock path without model: "+out.msg)
			}
		default:
			res.Inconcl = append(res.Inconcl, out.kind+": "+out.msg+" at "+i.where())
		}
		for k := range ps.violations {
			if isKnown != nil && isKnown(&ps.violations[k]) {
				res.KnownCount++
				if res.KnownCount > 3 {
					continue // keep a few witnesses of known findings only
				}
			} else {
				// keep a few witnesses per distinct (kind, message, detail): a flood of one kind must not end the
				// exploration before another kind is reached
				sig := ps.violations[k].Kind + "|" + ps.violations[k].Msg + "|" + ps.violations[k].Detail
				if res.sigCount == nil {
					res.sigCount = map[string]int{}
				}
				res.sigCount[sig]++
				if res.sigCount[sig] > 8 {
					res.Dropped++
					continue
				}
				res.FreshCount++
			}
			res.Violations = append(res.Violations, ps.violations[k])
		}
		i.solver.Pop()
		i.rollback(mark)

		tr := ps.trace
		// donate the shallowest open alternative to an idle worker
		if donate != nil {
			for k := nbase; k < len(tr); k++ {
				if !tr[k].Done {
					alt := append([]Decision(nil), tr[:k+1]...)
					alt[k].Taken = !alt[k].Taken
					if donate(alt) {
						tr[k].Done = true
					}
					break
				}
			}
		}
		for len(tr) > nbase && tr[len(tr)-1].Done {
			tr = tr[:len(tr)-1]
		}
		if len(tr) <= nbase {
			break
		}
		tr[len(tr)-1].Taken = !tr[len(tr)-1].Taken
		tr[len(tr)-1].Done = true
		prefix = append([]Decision(nil), tr...)
		if res.Paths >= lim.MaxPaths {
			res.Inconcl = append(res.Inconcl, fmt.Sprintf("path budget %d exceeded", lim.MaxPaths))
			break
		}
		if res.FreshCount >= lim.MaxViolations {
			res.Inconcl = append(res.Inconcl, "stopped after max violations (exploration incomplete)")
			break
		}
		if len(res.Inconcl) > 50 {
			break
		}
	}
	return res
}

type Limits struct {
	MaxSteps      int64
	MaxDecisions  int
	MaxPaths      int
	MaxViolations int
	Samples       int
	SampleEvery   int
}
