package main

// Unary byte-domain reasoning: branch-feasibility queries whose condition mentions a single 8-bit
// variable that occurs in no multi-variable constraint of the path condition are decided exactly by
// intersecting 256-bit value sets (a complete decision procedure for that fragment). Everything else,
// and every assertion query, goes to the SMT solver. Thorough tier cross-checks a sample against z3.

type bitset [4]uint64

func (b *bitset) has(v uint64) bool { return b[v>>6]&(1<<(v&63)) != 0 }
func (b *bitset) set(v uint64)      { b[v>>6] |= 1 << (v & 63) }
func (b *bitset) and(o *bitset) bitset {
	return bitset{b[0] & o[0], b[1] & o[1], b[2] & o[2], b[3] & o[3]}
}
func (b *bitset) empty() bool { return b[0]|b[1]|b[2]|b[3] == 0 }

var fullBits = bitset{^uint64(0), ^uint64(0), ^uint64(0), ^uint64(0)}

// singleVar returns the only variable of t if t has exactly one variable and it is 8 bits wide.
func (i *Interp) singleVar(t *Term) *Term {
	if v, ok := i.svCache[t]; ok {
		return v
	}
	var vs []*Term
	t.Vars(map[*Term]bool{}, &vs)
	var r *Term
	if len(vs) == 1 && vs[0].w == 8 {
		r = vs[0]
	}
	i.svCache[t] = r
	return r
}

// satSet returns the set of values of v for which the boolean term c holds.
func (i *Interp) satSet(c, v *Term) *bitset {
	if b, ok := i.satCache[c]; ok {
		return b
	}
	b := new(bitset)
	env := map[*Term]uint64{}
	for x := uint64(0); x < 256; x++ {
		env[v] = x
		if c.Eval(env, map[*Term]uint64{}) != 0 {
			b.set(x)
		}
	}
	i.satCache[c] = b
	return b
}

// domAssert records c in the unary domains (called for every constraint added to the path).
func (i *Interp) domAssert(c *Term) {
	ps := i.ps
	if v := i.singleVar(c); v != nil {
		d, ok := ps.dom[v]
		if !ok {
			d = fullBits
		}
		ps.dom[v] = d.and(i.satSet(c, v))
		return
	}
	var vs []*Term
	c.Vars(map[*Term]bool{}, &vs)
	for _, v := range vs {
		ps.multi[v] = true
	}
}

// domCheck decides feasibility of PC ∧ c when possible; ok=false means "ask the solver".
func (i *Interp) domCheck(c *Term) (SatResult, bool) {
	if !i.useDomains {
		return Unknown, false
	}
	v := i.singleVar(c)
	if v == nil || i.ps.multi[v] {
		return Unknown, false
	}
	d, ok := i.ps.dom[v]
	if !ok {
		d = fullBits
	}
	r := d.and(i.satSet(c, v))
	i.domQueries++
	if r.empty() {
		return Unsat, true
	}
	return Sat, true
}

// feasible checks PC ∧ c.
func (i *Interp) feasible(c *Term) SatResult {
	if r, ok := i.domCheck(c); ok {
		if i.crossCheck > 0 && i.domQueries%i.crossCheck == 0 {
			if s := i.solver.CheckWith(c); s != Unknown && s != r {
				panic(engineBug{"domain reasoning disagrees with solver on " + c.String()})
			}
		}
		return r
	}
	return i.solver.CheckWith(c)
}
