package main

// Hash-consed SMT terms (QF_BV + Bool) with light simplification.

import (
	"fmt"
	"strconv"
	"strings"
)

type Op uint8

const (
	OpVar Op = iota
	OpConst
	OpTrue
	OpFalse
	OpNot
	OpAnd
	OpOr
	OpEq  // (= a b) on BV or Bool
	OpIte // ite c a b
	OpBVAdd
	OpBVSub
	OpBVMul
	OpBVUDiv
	OpBVURem
	OpBVSDiv
	OpBVSRem
	OpBVAnd
	OpBVOr
	OpBVXor
	OpBVNot
	OpBVNeg
	OpBVShl
	OpBVLshr
	OpBVAshr
	OpBVUlt
	OpBVUle
	OpBVSlt
	OpBVSle
	OpZeroExt // val = extra bits
	OpSignExt // val = extra bits
	OpExtract // val = hi<<8|lo
	OpConcat
)

var opNames = map[Op]string{
	OpNot: "not", OpAnd: "and", OpOr: "or", OpEq: "=", OpIte: "ite",
	OpBVAdd: "bvadd", OpBVSub: "bvsub", OpBVMul: "bvmul", OpBVUDiv: "bvudiv", OpBVURem: "bvurem",
	OpBVSDiv: "bvsdiv", OpBVSRem: "bvsrem", OpBVAnd: "bvand", OpBVOr: "bvor", OpBVXor: "bvxor",
	OpBVNot: "bvnot", OpBVNeg: "bvneg", OpBVShl: "bvshl", OpBVLshr: "bvlshr", OpBVAshr: "bvashr",
	OpBVUlt: "bvult", OpBVUle: "bvule", OpBVSlt: "bvslt", OpBVSle: "bvsle", OpConcat: "concat",
}

// Term is an immutable, hash-consed SMT term. w == 0 means Bool, otherwise a bit-vector width.
type Term struct {
	op   Op
	w    int
	args []*Term
	val  uint64
	name string
	id   int
}

// TermStore owns the hash-consing table (one per worker; not shared).
type TermStore struct {
	tab   map[string]*Term
	next  int
	tt    *Term
	ff    *Term
	nvars int
}

func NewTermStore() *TermStore {
	s := &TermStore{tab: map[string]*Term{}}
	s.tt = s.mk(&Term{op: OpTrue})
	s.ff = s.mk(&Term{op: OpFalse})
	return s
}

func (s *TermStore) mk(t *Term) *Term {
	var sb strings.Builder
	sb.WriteByte(byte(t.op) + 'A')
	sb.WriteString(strconv.Itoa(t.w))
	sb.WriteByte(':')
	sb.WriteString(strconv.FormatUint(t.val, 16))
	sb.WriteByte(':')
	sb.WriteString(t.name)
	for _, a := range t.args {
		sb.WriteByte(',')
		sb.WriteString(strconv.Itoa(a.id))
	}
	k := sb.String()
	if x, ok := s.tab[k]; ok {
		return x
	}
	t.id = s.next
	s.next++
	s.tab[k] = t
	return t
}

func mask(w int) uint64 {
	if w >= 64 {
		return ^uint64(0)
	}
	return (uint64(1) << uint(w)) - 1
}

func sext(v uint64, w int) int64 {
	if w >= 64 {
		return int64(v)
	}
	sh := uint(64 - w)
	return int64(v<<sh) >> sh
}

func (s *TermStore) Var(name string, w int) *Term {
	return s.mk(&Term{op: OpVar, w: w, name: name})
}
func (s *TermStore) Const(v uint64, w int) *Term {
	return s.mk(&Term{op: OpConst, w: w, val: v & mask(w)})
}
func (s *TermStore) Bool(b bool) *Term {
	if b {
		return s.tt
	}
	return s.ff
}
func (t *Term) IsConst() bool { return t.op == OpConst || t.op == OpTrue || t.op == OpFalse }
func (t *Term) IsTrue() bool  { return t.op == OpTrue }
func (t *Term) IsFalse() bool { return t.op == OpFalse }

func (s *TermStore) Not(a *Term) *Term {
	switch a.op {
	case OpTrue:
		return s.ff
	case OpFalse:
		return s.tt
	case OpNot:
		return a.args[0]
	}
	return s.mk(&Term{op: OpNot, args: []*Term{a}})
}

func (s *TermStore) And(a, b *Term) *Term {
	if a.op == OpFalse || b.op == OpFalse {
		return s.ff
	}
	if a.op == OpTrue {
		return b
	}
	if b.op == OpTrue {
		return a
	}
	if a == b {
		return a
	}
	if a.id > b.id {
		a, b = b, a
	}
	return s.mk(&Term{op: OpAnd, args: []*Term{a, b}})
}

func (s *TermStore) Or(a, b *Term) *Term {
	if a.op == OpTrue || b.op == OpTrue {
		return s.tt
	}
	if a.op == OpFalse {
		return b
	}
	if b.op == OpFalse {
		return a
	}
	if a == b {
		return a
	}
	if a.id > b.id {
		a, b = b, a
	}
	return s.mk(&Term{op: OpOr, args: []*Term{a, b}})
}

func (s *TermStore) Eq(a, b *Term) *Term {
	if a == b {
		return s.tt
	}
	if a.w != b.w {
		panic(fmt.Sprintf("Eq width mismatch %d vs %d", a.w, b.w))
	}
	if a.IsConst() && b.IsConst() {
		if a.w == 0 {
			return s.Bool(a.op == b.op)
		}
		return s.Bool(a.val == b.val)
	}
	if a.w == 0 {
		// boolean equality with constant
		if a.op == OpTrue {
			return b
		}
		if b.op == OpTrue {
			return a
		}
		if a.op == OpFalse {
			return s.Not(b)
		}
		if b.op == OpFalse {
			return s.Not(a)
		}
	}
	// (= (zero_extend x) const) with const not fitting -> false ; fitting -> (= x const')
	if a.IsConst() {
		a, b = b, a
	}
	if b.IsConst() && a.op == OpZeroExt {
		inner := a.args[0]
		if b.val&^mask(inner.w) != 0 {
			return s.ff
		}
		return s.Eq(inner, s.Const(b.val, inner.w))
	}
	if b.IsConst() && a.op == OpIte && a.args[1].IsConst() && a.args[2].IsConst() {
		// (= (ite c k1 k2) k) -> c / not c / false / true
		e1 := a.args[1].val == b.val
		e2 := a.args[2].val == b.val
		switch {
		case e1 && e2:
			return s.tt
		case e1:
			return a.args[0]
		case e2:
			return s.Not(a.args[0])
		default:
			return s.ff
		}
	}
	if a.id > b.id {
		a, b = b, a
	}
	return s.mk(&Term{op: OpEq, args: []*Term{a, b}})
}

func (s *TermStore) Ite(c, a, b *Term) *Term {
	if c.op == OpTrue {
		return a
	}
	if c.op == OpFalse {
		return b
	}
	if a == b {
		return a
	}
	if a.w == 0 {
		if a.op == OpTrue && b.op == OpFalse {
			return c
		}
		if a.op == OpFalse && b.op == OpTrue {
			return s.Not(c)
		}
	}
	return s.mk(&Term{op: OpIte, w: a.w, args: []*Term{c, a, b}})
}

func foldBin(op Op, x, y uint64, w int) (uint64, bool) {
	m := mask(w)
	switch op {
	case OpBVAdd:
		return (x + y) & m, true
	case OpBVSub:
		return (x - y) & m, true
	case OpBVMul:
		return (x * y) & m, true
	case OpBVAnd:
		return x & y, true
	case OpBVOr:
		return x | y, true
	case OpBVXor:
		return x ^ y, true
	case OpBVUDiv:
		if y == 0 {
			return m, true
		}
		return x / y, true
	case OpBVURem:
		if y == 0 {
			return x, true
		}
		return x % y, true
	case OpBVSDiv:
		if y == 0 {
			return 0, false
		}
		sx, sy := sext(x, w), sext(y, w)
		if sy == -1 {
			return uint64(-sx) & m, true
		}
		return uint64(sx/sy) & m, true
	case OpBVSRem:
		if y == 0 {
			return 0, false
		}
		sx, sy := sext(x, w), sext(y, w)
		if sy == -1 {
			return 0, true
		}
		return uint64(sx%sy) & m, true
	case OpBVShl:
		if y >= uint64(w) {
			return 0, true
		}
		return (x << y) & m, true
	case OpBVLshr:
		if y >= uint64(w) {
			return 0, true
		}
		return x >> y, true
	case OpBVAshr:
		sx := sext(x, w)
		if y >= uint64(w) {
			y = uint64(w - 1)
		}
		return uint64(sx>>y) & m, true
	}
	return 0, false
}

func (s *TermStore) BV(op Op, a, b *Term) *Term {
	if a.w != b.w {
		panic(fmt.Sprintf("BV op %s width mismatch %d vs %d", opNames[op], a.w, b.w))
	}
	if a.IsConst() && b.IsConst() {
		if v, ok := foldBin(op, a.val, b.val, a.w); ok {
			return s.Const(v, a.w)
		}
	}
	switch op {
	case OpBVAdd:
		if a.IsConst() && a.val == 0 {
			return b
		}
		if b.IsConst() && b.val == 0 {
			return a
		}
	case OpBVSub:
		if b.IsConst() && b.val == 0 {
			return a
		}
		if a == b {
			return s.Const(0, a.w)
		}
	case OpBVAnd:
		if a == b {
			return a
		}
		if a.IsConst() && a.val == 0 || b.IsConst() && b.val == 0 {
			return s.Const(0, a.w)
		}
		if a.IsConst() && a.val == mask(a.w) {
			return b
		}
		if b.IsConst() && b.val == mask(a.w) {
			return a
		}
	case OpBVOr, OpBVXor:
		if a.IsConst() && a.val == 0 {
			return b
		}
		if b.IsConst() && b.val == 0 {
			return a
		}
		if a == b {
			if op == OpBVOr {
				return a
			}
			return s.Const(0, a.w)
		}
	case OpBVShl, OpBVLshr, OpBVAshr:
		if b.IsConst() && b.val == 0 {
			return a
		}
	case OpBVMul:
		if a.IsConst() && a.val == 1 {
			return b
		}
		if b.IsConst() && b.val == 1 {
			return a
		}
		if a.IsConst() && a.val == 0 || b.IsConst() && b.val == 0 {
			return s.Const(0, a.w)
		}
	}
	return s.mk(&Term{op: op, w: a.w, args: []*Term{a, b}})
}

func (s *TermStore) BVNot(a *Term) *Term {
	if a.IsConst() {
		return s.Const(^a.val, a.w)
	}
	return s.mk(&Term{op: OpBVNot, w: a.w, args: []*Term{a}})
}
func (s *TermStore) BVNeg(a *Term) *Term {
	if a.IsConst() {
		return s.Const(-a.val, a.w)
	}
	return s.mk(&Term{op: OpBVNeg, w: a.w, args: []*Term{a}})
}

// Cmp builds an unsigned/signed comparison; op is one of OpBVUlt/Ule/Slt/Sle.
func (s *TermStore) Cmp(op Op, a, b *Term) *Term {
	if a.w != b.w {
		panic("Cmp width mismatch")
	}
	if a.IsConst() && b.IsConst() {
		switch op {
		case OpBVUlt:
			return s.Bool(a.val < b.val)
		case OpBVUle:
			return s.Bool(a.val <= b.val)
		case OpBVSlt:
			return s.Bool(sext(a.val, a.w) < sext(b.val, a.w))
		case OpBVSle:
			return s.Bool(sext(a.val, a.w) <= sext(b.val, a.w))
		}
	}
	if a == b {
		return s.Bool(op == OpBVUle || op == OpBVSle)
	}
	// zero-extended values compared with constants: compare in the narrow width
	if a.op == OpZeroExt && b.IsConst() && (op == OpBVUlt || op == OpBVUle) {
		in := a.args[0]
		if b.val > mask(in.w) {
			return s.tt
		}
		return s.Cmp(op, in, s.Const(b.val, in.w))
	}
	if b.op == OpZeroExt && a.IsConst() && (op == OpBVUlt || op == OpBVUle) {
		in := b.args[0]
		if a.val > mask(in.w) {
			return s.ff
		}
		return s.Cmp(op, s.Const(a.val, in.w), in)
	}
	if (op == OpBVSlt || op == OpBVSle) && a.op == OpZeroExt && b.IsConst() {
		// zero-extended is non-negative
		sb := sext(b.val, b.w)
		if sb < 0 {
			return s.ff
		}
		uop := OpBVUlt
		if op == OpBVSle {
			uop = OpBVUle
		}
		return s.Cmp(uop, a, b)
	}
	if (op == OpBVSlt || op == OpBVSle) && b.op == OpZeroExt && a.IsConst() {
		sa := sext(a.val, a.w)
		if sa < 0 {
			return s.tt
		}
		uop := OpBVUlt
		if op == OpBVSle {
			uop = OpBVUle
		}
		return s.Cmp(uop, a, b)
	}
	return s.mk(&Term{op: op, args: []*Term{a, b}})
}

func (s *TermStore) ZeroExt(a *Term, to int) *Term {
	if to == a.w {
		return a
	}
	if to < a.w {
		return s.Extract(a, to-1, 0)
	}
	if a.IsConst() {
		return s.Const(a.val, to)
	}
	if a.op == OpZeroExt {
		return s.ZeroExt(a.args[0], to)
	}
	return s.mk(&Term{op: OpZeroExt, w: to, val: uint64(to - a.w), args: []*Term{a}})
}

func (s *TermStore) SignExt(a *Term, to int) *Term {
	if to == a.w {
		return a
	}
	if to < a.w {
		return s.Extract(a, to-1, 0)
	}
	if a.IsConst() {
		return s.Const(uint64(sext(a.val, a.w)), to)
	}
	if a.op == OpZeroExt {
		return s.ZeroExt(a.args[0], to)
	}
	return s.mk(&Term{op: OpSignExt, w: to, val: uint64(to - a.w), args: []*Term{a}})
}

func (s *TermStore) Extract(a *Term, hi, lo int) *Term {
	w := hi - lo + 1
	if lo == 0 && w == a.w {
		return a
	}
	if a.IsConst() {
		return s.Const(a.val>>uint(lo), w)
	}
	if (a.op == OpZeroExt || a.op == OpSignExt) && lo == 0 {
		in := a.args[0]
		if w == in.w {
			return in
		}
		if w < in.w {
			return s.Extract(in, hi, 0)
		}
		if a.op == OpZeroExt {
			return s.ZeroExt(in, w)
		}
		return s.SignExt(in, w)
	}
	return s.mk(&Term{op: OpExtract, w: w, val: uint64(hi)<<8 | uint64(lo), args: []*Term{a}})
}

// SMT prints the term in SMT-LIB2 concrete syntax.
func (t *Term) SMT(sb *strings.Builder) {
	switch t.op {
	case OpVar:
		sb.WriteString(t.name)
	case OpConst:
		if t.w%4 == 0 {
			fmt.Fprintf(sb, "#x%0*x", t.w/4, t.val)
		} else {
			fmt.Fprintf(sb, "#b%0*b", t.w, t.val)
		}
	case OpTrue:
		sb.WriteString("true")
	case OpFalse:
		sb.WriteString("false")
	case OpZeroExt:
		fmt.Fprintf(sb, "((_ zero_extend %d) ", t.val)
		t.args[0].SMT(sb)
		sb.WriteByte(')')
	case OpSignExt:
		fmt.Fprintf(sb, "((_ sign_extend %d) ", t.val)
		t.args[0].SMT(sb)
		sb.WriteByte(')')
	case OpExtract:
		fmt.Fprintf(sb, "((_ extract %d %d) ", t.val>>8, t.val&0xff)
		t.args[0].SMT(sb)
		sb.WriteByte(')')
	default:
		sb.WriteByte('(')
		sb.WriteString(opNames[t.op])
		for _, a := range t.args {
			sb.WriteByte(' ')
			a.SMT(sb)
		}
		sb.WriteByte(')')
	}
}

func (t *Term) String() string {
	var sb strings.Builder
	t.SMT(&sb)
	return sb.String()
}

// Vars appends the variables of t (deduplicated through seen).
func (t *Term) Vars(seen map[*Term]bool, out *[]*Term) {
	if seen[t] {
		return
	}
	seen[t] = true
	if t.op == OpVar {
		*out = append(*out, t)
		return
	}
	for _, a := range t.args {
		a.Vars(seen, out)
	}
}

// Eval evaluates t under a total assignment of its variables.
func (t *Term) Eval(env map[*Term]uint64, memo map[*Term]uint64) uint64 {
	if v, ok := memo[t]; ok {
		return v
	}
	var r uint64
	b2u := func(b bool) uint64 {
		if b {
			return 1
		}
		return 0
	}
	switch t.op {
	case OpVar:
		r = env[t] & mask(maxInt(t.w, 1))
	case OpConst:
		r = t.val
	case OpTrue:
		r = 1
	case OpFalse:
		r = 0
	case OpNot:
		r = 1 - t.args[0].Eval(env, memo)
	case OpAnd:
		r = t.args[0].Eval(env, memo) & t.args[1].Eval(env, memo)
	case OpOr:
		r = t.args[0].Eval(env, memo) | t.args[1].Eval(env, memo)
	case OpEq:
		r = b2u(t.args[0].Eval(env, memo) == t.args[1].Eval(env, memo))
	case OpIte:
		if t.args[0].Eval(env, memo) != 0 {
			r = t.args[1].Eval(env, memo)
		} else {
			r = t.args[2].Eval(env, memo)
		}
	case OpBVNot:
		r = ^t.args[0].Eval(env, memo) & mask(t.w)
	case OpBVNeg:
		r = -t.args[0].Eval(env, memo) & mask(t.w)
	case OpBVUlt:
		r = b2u(t.args[0].Eval(env, memo) < t.args[1].Eval(env, memo))
	case OpBVUle:
		r = b2u(t.args[0].Eval(env, memo) <= t.args[1].Eval(env, memo))
	case OpBVSlt:
		w := t.args[0].w
		r = b2u(sext(t.args[0].Eval(env, memo), w) < sext(t.args[1].Eval(env, memo), w))
	case OpBVSle:
		w := t.args[0].w
		r = b2u(sext(t.args[0].Eval(env, memo), w) <= sext(t.args[1].Eval(env, memo), w))
	case OpZeroExt:
		r = t.args[0].Eval(env, memo)
	case OpSignExt:
		r = uint64(sext(t.args[0].Eval(env, memo), t.args[0].w)) & mask(t.w)
	case OpExtract:
		r = (t.args[0].Eval(env, memo) >> (t.val & 0xff)) & mask(t.w)
	case OpConcat:
		r = (t.args[0].Eval(env, memo)<<uint(t.args[1].w) | t.args[1].Eval(env, memo)) & mask(t.w)
	default:
		x, y := t.args[0].Eval(env, memo), t.args[1].Eval(env, memo)
		v, ok := foldBin(t.op, x, y, t.w)
		if !ok {
			// division by zero per SMT-LIB semantics
			switch t.op {
			case OpBVSDiv:
				if sext(x, t.w) < 0 {
					v = 1
				} else {
					v = mask(t.w)
				}
			case OpBVSRem:
				v = x
			}
		}
		r = v
	}
	memo[t] = r
	return r
}

func maxInt(a, b int) int {
	if a > b {
		return a
	}
	return b
}

// Subst rewrites t replacing pinned variables by constants (re-simplifying on the way up).
func (s *TermStore) Subst(t *Term, pin map[*Term]*Term, memo map[*Term]*Term) *Term {
	if len(pin) == 0 {
		return t
	}
	if r, ok := memo[t]; ok {
		return r
	}
	var r *Term
	switch t.op {
	case OpVar:
		if c, ok := pin[t]; ok {
			r = c
		} else {
			r = t
		}
	case OpConst, OpTrue, OpFalse:
		r = t
	default:
		changed := false
		na := make([]*Term, len(t.args))
		for i, a := range t.args {
			na[i] = s.Subst(a, pin, memo)
			if na[i] != a {
				changed = true
			}
		}
		if !changed {
			r = t
		} else {
			r = s.rebuild(t, na)
		}
	}
	memo[t] = r
	return r
}

func (s *TermStore) rebuild(t *Term, a []*Term) *Term {
	switch t.op {
	case OpNot:
		return s.Not(a[0])
	case OpAnd:
		return s.And(a[0], a[1])
	case OpOr:
		return s.Or(a[0], a[1])
	case OpEq:
		return s.Eq(a[0], a[1])
	case OpIte:
		return s.Ite(a[0], a[1], a[2])
	case OpBVNot:
		return s.BVNot(a[0])
	case OpBVNeg:
		return s.BVNeg(a[0])
	case OpBVUlt, OpBVUle, OpBVSlt, OpBVSle:
		return s.Cmp(t.op, a[0], a[1])
	case OpZeroExt:
		return s.ZeroExt(a[0], t.w)
	case OpSignExt:
		return s.SignExt(a[0], t.w)
	case OpExtract:
		return s.Extract(a[0], int(t.val>>8), int(t.val&0xff))
	case OpConcat:
		return s.mk(&Term{op: OpConcat, w: t.w, args: a})
	default:
		return s.BV(t.op, a[0], a[1])
	}
}
