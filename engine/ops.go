package main

import (
	"fmt"
	"go/constant"
	"go/token"
	"go/types"
	"math"
	"unicode/utf8"

	"golang.org/x/tools/go/ssa"
)

func constStringVal(c *ssa.Const) string { return constant.StringVal(c.Value) }

// toTerm lifts an integer value to a term of width w.
func (i *Interp) toTerm(v value, w int) *Term {
	switch x := v.(type) {
	case int64:
		return i.ts.Const(uint64(x), w)
	case *Term:
		if x.w != w {
			panic(fmt.Sprintf("toTerm: width %d, want %d", x.w, w))
		}
		return x
	}
	panic(fmt.Sprintf("toTerm: %T", v))
}

func (i *Interp) boolTerm(v value) *Term {
	switch x := v.(type) {
	case bool:
		return i.ts.Bool(x)
	case *Term:
		return x
	}
	panic(fmt.Sprintf("boolTerm: %T", v))
}

// fromTerm lowers constant terms back to concrete values.
func fromTerm(t *Term, signed bool) value {
	switch t.op {
	case OpTrue:
		return true
	case OpFalse:
		return false
	case OpConst:
		if signed {
			return sext(t.val, t.w)
		}
		return int64(t.val)
	}
	return t
}

func isSym(v value) bool {
	switch v.(type) {
	case *Term, *sstr:
		return true
	}
	return false
}

func (i *Interp) unop(instr *ssa.UnOp, x value) value {
	switch instr.Op {
	case token.ARROW:
		i.unsupported("channel receive")
	case token.SUB:
		switch x := x.(type) {
		case int64:
			w, s, _ := intInfo(instr.X.Type())
			return norm(-x, w, s)
		case float64:
			return -x
		case *Term:
			_, s, _ := intInfo(instr.X.Type())
			return fromTerm(i.ts.BVNeg(x), s)
		}
	case token.MUL:
		p, ok := x.(*value)
		if !ok {
			panic(fmt.Sprintf("deref of %T in %s", x, instr.Parent()))
		}
		return i.load(deref(instr.X.Type()), p)
	case token.NOT:
		switch x := x.(type) {
		case bool:
			return !x
		case *Term:
			return fromTerm(i.ts.Not(x), false)
		}
	case token.XOR:
		switch x := x.(type) {
		case int64:
			w, s, _ := intInfo(instr.X.Type())
			return norm(^x, w, s)
		case *Term:
			_, s, _ := intInfo(instr.X.Type())
			return fromTerm(i.ts.BVNot(x), s)
		}
	}
	panic(fmt.Sprintf("invalid unary op %s %T", instr.Op, x))
}

// strEq builds the equality of two strings (concrete lengths).
func (i *Interp) strEq(x, y value) value {
	if xs, ok := x.(string); ok {
		if ys, ok := y.(string); ok {
			return xs == ys
		}
	}
	if strLen(x) != strLen(y) {
		return false
	}
	xb, yb := strBytes(x), strBytes(y)
	acc := i.ts.tt
	for k := range xb {
		acc = i.ts.And(acc, i.ts.Eq(i.toTerm(xb[k], 8), i.toTerm(yb[k], 8)))
		if acc.IsFalse() {
			return false
		}
	}
	return fromTerm(acc, false)
}

// strLess builds x < y lexicographically.
func (i *Interp) strLess(x, y value) value {
	if xs, ok := x.(string); ok {
		if ys, ok := y.(string); ok {
			return xs < ys
		}
	}
	xb, yb := strBytes(x), strBytes(y)
	n := len(xb)
	if len(yb) < n {
		n = len(yb)
	}
	// from the end: less(n) = len(x) < len(y)
	acc := i.ts.Bool(len(xb) < len(yb))
	for k := n - 1; k >= 0; k-- {
		a, b := i.toTerm(xb[k], 8), i.toTerm(yb[k], 8)
		acc = i.ts.Ite(i.ts.Cmp(OpBVUlt, a, b), i.ts.tt, i.ts.Ite(i.ts.Eq(a, b), acc, i.ts.ff))
	}
	return fromTerm(acc, false)
}

func (i *Interp) notV(v value) value {
	switch x := v.(type) {
	case bool:
		return !x
	case *Term:
		return fromTerm(i.ts.Not(x), false)
	}
	panic("notV")
}

func (i *Interp) binop(op token.Token, t, ty types.Type, x, y value) value {
	// strings
	if isStringType(t) {
		switch op {
		case token.ADD:
			if xs, ok := x.(string); ok {
				if ys, ok := y.(string); ok {
					if i.allocTrack && len(xs) > 0 && len(ys) > 0 {
						i.allocEvent("string concatenation")
					}
					return xs + ys
				}
			}
			if i.allocTrack {
				i.allocEvent("string concatenation")
			}
			xb, yb := strBytes(x), strBytes(y)
			r := make([]value, 0, len(xb)+len(yb))
			r = append(r, xb...)
			r = append(r, yb...)
			return mkStr(r)
		case token.EQL:
			return i.strEq(x, y)
		case token.NEQ:
			return i.notV(i.strEq(x, y))
		case token.LSS:
			return i.strLess(x, y)
		case token.GTR:
			return i.strLess(y, x)
		case token.LEQ:
			return i.notV(i.strLess(y, x))
		case token.GEQ:
			return i.notV(i.strLess(x, y))
		}
		panic("bad string op " + op.String())
	}
	if w, signed, ok := intInfo(t); ok {
		xi, xc := x.(int64)
		yi, yc := y.(int64)
		if xc && yc {
			return intBinop(i, op, w, signed, xi, yi, ty)
		}
		return i.symIntBinop(op, w, signed, x, y, ty)
	}
	if isBoolType(t) {
		xb, xc := x.(bool)
		yb, yc := y.(bool)
		switch op {
		case token.EQL:
			if xc && yc {
				return xb == yb
			}
			return fromTerm(i.ts.Eq(i.boolTerm(x), i.boolTerm(y)), false)
		case token.NEQ:
			if xc && yc {
				return xb != yb
			}
			return fromTerm(i.ts.Not(i.ts.Eq(i.boolTerm(x), i.boolTerm(y))), false)
		case token.AND:
			return fromTerm(i.ts.And(i.boolTerm(x), i.boolTerm(y)), false)
		case token.OR:
			return fromTerm(i.ts.Or(i.boolTerm(x), i.boolTerm(y)), false)
		}
		panic("bad bool op " + op.String())
	}
	if isFloatType(t) {
		xf, yf := x.(float64), y.(float64)
		is32 := t.Underlying().(*types.Basic).Kind() == types.Float32
		r32 := func(f float64) float64 {
			if is32 {
				return float64(float32(f))
			}
			return f
		}
		switch op {
		case token.ADD:
			return r32(xf + yf)
		case token.SUB:
			return r32(xf - yf)
		case token.MUL:
			return r32(xf * yf)
		case token.QUO:
			return r32(xf / yf)
		case token.EQL:
			return xf == yf
		case token.NEQ:
			return xf != yf
		case token.LSS:
			return xf < yf
		case token.LEQ:
			return xf <= yf
		case token.GTR:
			return xf > yf
		case token.GEQ:
			return xf >= yf
		}
		panic("bad float op")
	}
	switch op {
	case token.EQL:
		return i.eqnil(t, x, y)
	case token.NEQ:
		return i.notV(i.eqnil(t, x, y))
	}
	panic(fmt.Sprintf("invalid binary op: %T %s %T (type %s)", x, op, y, t))
}

func intBinop(i *Interp, op token.Token, w int, signed bool, x, y int64, ty types.Type) value {
	ux, uy := uint64(x), uint64(y)
	switch op {
	case token.ADD:
		return norm(x+y, w, signed)
	case token.SUB:
		return norm(x-y, w, signed)
	case token.MUL:
		return norm(x*y, w, signed)
	case token.QUO:
		if y == 0 {
			i.rtPanic("integer divide by zero")
		}
		if signed {
			if y == -1 {
				return norm(-x, w, signed)
			}
			return norm(x/y, w, signed)
		}
		return norm(int64(ux/uy), w, signed)
	case token.REM:
		if y == 0 {
			i.rtPanic("integer divide by zero")
		}
		if signed {
			if y == -1 {
				return int64(0)
			}
			return norm(x%y, w, signed)
		}
		return norm(int64(ux%uy), w, signed)
	case token.AND:
		return norm(x&y, w, signed)
	case token.OR:
		return norm(x|y, w, signed)
	case token.XOR:
		return norm(x^y, w, signed)
	case token.AND_NOT:
		return norm(x&^y, w, signed)
	case token.SHL, token.SHR:
		_, ysigned, _ := intInfo(ty)
		if ysigned && y < 0 {
			i.rtPanic("negative shift amount")
		}
		if op == token.SHL {
			if uy >= 64 {
				return int64(0)
			}
			return norm(int64(ux<<uy), w, signed)
		}
		if signed {
			if uy >= 64 {
				uy = 63
			}
			return norm(x>>uy, w, signed)
		}
		if uy >= 64 {
			return int64(0)
		}
		return norm(int64(ux>>uy), w, signed)
	case token.EQL:
		return x == y
	case token.NEQ:
		return x != y
	case token.LSS:
		if signed {
			return x < y
		}
		return ux < uy
	case token.LEQ:
		if signed {
			return x <= y
		}
		return ux <= uy
	case token.GTR:
		if signed {
			return x > y
		}
		return ux > uy
	case token.GEQ:
		if signed {
			return x >= y
		}
		return ux >= uy
	}
	panic("bad int op " + op.String())
}

func (i *Interp) symIntBinop(op token.Token, w int, signed bool, x, y value, ty types.Type) value {
	ts := i.ts
	a := i.toTerm(x, w)
	var b *Term
	if op == token.SHL || op == token.SHR {
		wy, ysigned, _ := intInfo(ty)
		yt := i.toTerm(y, wy)
		if ysigned {
			neg := ts.Cmp(OpBVSlt, yt, ts.Const(0, wy))
			if !neg.IsFalse() && i.decide(neg) {
				i.rtPanic("negative shift amount")
			}
		}
		if wy > w {
			// saturate: if any high bit set the shift is >= w
			hi := ts.Extract(yt, wy-1, w)
			lo := ts.Extract(yt, w-1, 0)
			b = ts.Ite(ts.Eq(hi, ts.Const(0, wy-w)), lo, ts.Const(uint64(w), w))
		} else {
			b = ts.ZeroExt(yt, w)
		}
	} else {
		b = i.toTerm(y, w)
	}
	cmp := func(uop, sop Op, swap, neg bool) value {
		o := uop
		if signed {
			o = sop
		}
		l, r := a, b
		if swap {
			l, r = b, a
		}
		t := ts.Cmp(o, l, r)
		if neg {
			t = ts.Not(t)
		}
		return fromTerm(t, false)
	}
	switch op {
	case token.ADD:
		return fromTerm(ts.BV(OpBVAdd, a, b), signed)
	case token.SUB:
		return fromTerm(ts.BV(OpBVSub, a, b), signed)
	case token.MUL:
		return fromTerm(ts.BV(OpBVMul, a, b), signed)
	case token.QUO, token.REM:
		z := ts.Eq(b, ts.Const(0, w))
		if !z.IsFalse() && i.decide(z) {
			i.rtPanic("integer divide by zero")
		}
		var o Op
		switch {
		case op == token.QUO && signed:
			o = OpBVSDiv
		case op == token.QUO:
			o = OpBVUDiv
		case signed:
			o = OpBVSRem
		default:
			o = OpBVURem
		}
		return fromTerm(ts.BV(o, a, b), signed)
	case token.AND:
		return fromTerm(ts.BV(OpBVAnd, a, b), signed)
	case token.OR:
		return fromTerm(ts.BV(OpBVOr, a, b), signed)
	case token.XOR:
		return fromTerm(ts.BV(OpBVXor, a, b), signed)
	case token.AND_NOT:
		return fromTerm(ts.BV(OpBVAnd, a, ts.BVNot(b)), signed)
	case token.SHL:
		return fromTerm(ts.BV(OpBVShl, a, b), signed)
	case token.SHR:
		if signed {
			return fromTerm(ts.BV(OpBVAshr, a, b), signed)
		}
		return fromTerm(ts.BV(OpBVLshr, a, b), signed)
	case token.EQL:
		return fromTerm(ts.Eq(a, b), false)
	case token.NEQ:
		return fromTerm(ts.Not(ts.Eq(a, b)), false)
	case token.LSS:
		return cmp(OpBVUlt, OpBVSlt, false, false)
	case token.LEQ:
		return cmp(OpBVUle, OpBVSle, false, false)
	case token.GTR:
		return cmp(OpBVUlt, OpBVSlt, true, false)
	case token.GEQ:
		return cmp(OpBVUle, OpBVSle, true, false)
	}
	panic("bad sym int op " + op.String())
}

// eqnil compares x == y for non-basic types (pointers, interfaces, structs, nil-comparisons).
func (i *Interp) eqnil(t types.Type, x, y value) value {
	switch t.Underlying().(type) {
	case *types.Map:
		return (x.(*omap) != nil) == (y.(*omap) != nil)
	case *types.Signature:
		return isNilFunc(x) == isNilFunc(y)
	case *types.Slice:
		return (x.([]value) != nil) == (y.([]value) != nil)
	}
	return i.equals(t, x, y)
}

func isNilFunc(v value) bool {
	switch f := v.(type) {
	case *ssa.Function:
		return f == nil
	case *closure:
		return f == nil
	case *ssa.Builtin:
		return f == nil
	}
	panic(fmt.Sprintf("isNilFunc: %T", v))
}

// equals implements Go's == for type t; the result may be symbolic.
func (i *Interp) equals(t types.Type, x, y value) value {
	switch x := x.(type) {
	case bool:
		if yb, ok := y.(bool); ok {
			return x == yb
		}
		return fromTerm(i.ts.Eq(i.boolTerm(x), i.boolTerm(y)), false)
	case int64:
		if yi, ok := y.(int64); ok {
			return x == yi
		}
		yt := y.(*Term)
		return fromTerm(i.ts.Eq(i.ts.Const(uint64(x), yt.w), yt), false)
	case *Term:
		if x.w == 0 {
			return fromTerm(i.ts.Eq(x, i.boolTerm(y)), false)
		}
		return fromTerm(i.ts.Eq(x, i.toTerm(y, x.w)), false)
	case float64:
		return x == y.(float64)
	case string, *sstr:
		return i.strEq(x, y)
	case *value:
		return x == y.(*value)
	case *omap:
		return x == y.(*omap)
	case *native:
		yn, ok := y.(*native)
		return ok && x == yn
	case structure:
		ys := y.(structure)
		st := t.Underlying().(*types.Struct)
		acc := value(true)
		for k := 0; k < st.NumFields(); k++ {
			if st.Field(k).Name() == "_" {
				continue
			}
			acc = i.andV(acc, i.equals(st.Field(k).Type(), x[k], ys[k]))
			if acc == false {
				return false
			}
		}
		return acc
	case array:
		ya := y.(array)
		et := t.Underlying().(*types.Array).Elem()
		acc := value(true)
		for k := range x {
			acc = i.andV(acc, i.equals(et, x[k], ya[k]))
			if acc == false {
				return false
			}
		}
		return acc
	case iface:
		yi := y.(iface)
		if x.t == nil || yi.t == nil {
			return x.t == nil && yi.t == nil
		}
		if !types.Identical(x.t, yi.t) {
			return false
		}
		if !types.Comparable(x.t) {
			panic(targetPanic{iface{t: i.runtimeErrorString, v: "comparing uncomparable type " + typeString(x.t)}})
		}
		return i.equals(x.t, x.v, yi.v)
	case *ssa.Function, *closure:
		panic(targetPanic{iface{t: i.runtimeErrorString, v: "comparing uncomparable type " + typeString(t)}})
	case []value:
		panic(targetPanic{iface{t: i.runtimeErrorString, v: "comparing uncomparable type " + typeString(t)}})
	}
	panic(fmt.Sprintf("equals: unexpected %T (type %s)", x, t))
}

func (i *Interp) andV(a, b value) value {
	ab, ac := a.(bool)
	bb, bc := b.(bool)
	if ac && bc {
		return ab && bb
	}
	return fromTerm(i.ts.And(i.boolTerm(a), i.boolTerm(b)), false)
}

func (i *Interp) slice(instr *ssa.Slice, x, lo, hi, max value) value {
	var Len, Cap int
	switch x := x.(type) {
	case string, *sstr:
		Len = strLen(x)
		Cap = Len
	case []value:
		Len = len(x)
		Cap = cap(x)
	case *value:
		if x == nil {
			i.rtPanic("invalid memory address or nil pointer dereference")
		}
		a := (*x).(array)
		Len = len(a)
		Cap = len(a)
	default:
		panic(fmt.Sprintf("slice: unexpected X type: %T", x))
	}
	l := 0
	if lo != nil {
		l = i.asIndex(lo, "slice lo")
	}
	h := Len
	if hi != nil {
		h = i.asIndex(hi, "slice hi")
	}
	m := Cap
	if max != nil {
		m = i.asIndex(max, "slice max")
	}
	_, isStr := x.(string)
	_, isSstr := x.(*sstr)
	if isStr || isSstr {
		if l < 0 || h < l || h > Len {
			i.rtPanic(fmt.Sprintf("slice bounds out of range [%d:%d] with length %d", l, h, Len))
		}
		return strSlice(x, l, h)
	}
	if l < 0 || h < l || m < h || m > Cap {
		i.rtPanic(fmt.Sprintf("slice bounds out of range [%d:%d:%d] with capacity %d", l, h, m, Cap))
	}
	switch x := x.(type) {
	case []value:
		if x == nil && h == 0 {
			return []value(nil)
		}
		return x[l:h:m]
	case *value:
		a := (*x).(array)
		return []value(a)[l:h:m]
	}
	panic("unreachable")
}

// keyEq decides k1 == k2 for map keys (may fork on symbolic keys).
func (i *Interp) keyEq(t types.Type, a, b value) bool {
	r := i.equals(t, a, b)
	switch r := r.(type) {
	case bool:
		return r
	case *Term:
		return i.decide(r)
	}
	panic("keyEq")
}

func (i *Interp) checkHashable(k value) {
	if f, ok := k.(iface); ok && f.t != nil {
		if !types.Comparable(f.t) {
			panic(targetPanic{iface{t: i.runtimeErrorString, v: "hash of unhashable type " + typeString(f.t)}})
		}
		i.checkHashableDeep(f.t, f.v)
	}
}

// checkHashableDeep panics like the runtime when an interface nested in a comparable struct/array
// holds an unhashable dynamic value.
func (i *Interp) checkHashableDeep(t types.Type, v value) {
	switch u := t.Underlying().(type) {
	case *types.Struct:
		s := v.(structure)
		for k := 0; k < u.NumFields(); k++ {
			i.checkHashableDeep(u.Field(k).Type(), s[k])
		}
	case *types.Array:
		a := v.(array)
		for k := range a {
			i.checkHashableDeep(u.Elem(), a[k])
		}
	case *types.Interface:
		f := v.(iface)
		if f.t != nil {
			if !types.Comparable(f.t) {
				panic(targetPanic{iface{t: i.runtimeErrorString, v: "hash of unhashable type " + typeString(f.t)}})
			}
			i.checkHashableDeep(f.t, f.v)
		}
	}
}

func (i *Interp) mapFind(m *omap, k value) *mapEntry {
	if m == nil {
		return nil
	}
	i.checkHashable(k)
	if hk, ok := hashKey(k); ok {
		if e, ok := m.idx[hk]; ok {
			return e
		}
		// there may be symbolic keys stored: compare against those only
		for _, e := range m.ents {
			if e.deleted {
				continue
			}
			if _, conc := hashKey(e.k); conc {
				continue
			}
			if i.keyEq(m.keyType, e.k, k) {
				return e
			}
		}
		return nil
	}
	for _, e := range m.ents {
		if e.deleted {
			continue
		}
		if i.keyEq(m.keyType, e.k, k) {
			return e
		}
	}
	return nil
}

func (i *Interp) mapInsert(m *omap, k, v value) {
	if e := i.mapFind(m, k); e != nil {
		old := e.v
		i.undo = append(i.undo, undoEntry{fn: func() { e.v = old }})
		e.v = v
		return
	}
	e := &mapEntry{k: k, v: v}
	m.ents = append(m.ents, e)
	m.n++
	hk, hashed := hashKey(k)
	if hashed {
		m.idx[hk] = e
	}
	i.undo = append(i.undo, undoEntry{fn: func() {
		m.ents = m.ents[:len(m.ents)-1]
		m.n--
		if hashed {
			delete(m.idx, hk)
		}
	}})
}

func (i *Interp) mapDelete(m *omap, k value) {
	e := i.mapFind(m, k)
	if e == nil {
		return
	}
	e.deleted = true
	m.n--
	hk, hashed := hashKey(e.k)
	if hashed {
		delete(m.idx, hk)
	}
	i.undo = append(i.undo, undoEntry{fn: func() {
		e.deleted = false
		m.n++
		if hashed {
			m.idx[hk] = e
		}
	}})
}

func (i *Interp) lookup(instr *ssa.Lookup, x, idx value) value {
	switch x := x.(type) {
	case *omap:
		var v value
		e := i.mapFind(x, idx)
		ok := e != nil
		if ok {
			v = copyVal(e.v)
		} else {
			v = zero(instr.X.Type().Underlying().(*types.Map).Elem())
		}
		if instr.CommaOk {
			return tuple{v, ok}
		}
		return v
	case string:
		return int64(x[i.boundedIndex(idx, len(x))])
	case *sstr:
		return x.b[i.boundedIndex(idx, len(x.b))]
	}
	panic(fmt.Sprintf("unexpected x type in Lookup: %T", x))
}

func (i *Interp) typeAssert(instr *ssa.TypeAssert, itf iface) value {
	var v value
	err := ""
	if itf.t == nil {
		err = fmt.Sprintf("interface conversion: interface is nil, not %s", instr.AssertedType)
	} else if idst, ok := instr.AssertedType.Underlying().(*types.Interface); ok {
		v = itf
		if meth, _ := types.MissingMethod(itf.t, idst, true); meth != nil {
			err = fmt.Sprintf("interface conversion: %v is not %v: missing method %s", itf.t, idst, meth.Name())
		}
	} else if types.Identical(itf.t, instr.AssertedType) {
		v = itf.v
	} else {
		err = fmt.Sprintf("interface conversion: interface is %s, not %s", itf.t, instr.AssertedType)
	}
	if err != "" {
		if !instr.CommaOk {
			i.rtPanic(err)
		}
		return tuple{zero(instr.AssertedType), false}
	}
	if instr.CommaOk {
		return tuple{v, true}
	}
	return v
}

func (i *Interp) callBuiltin(caller *frame, callpos token.Pos, fn *ssa.Builtin, args []value) value {
	switch fn.Name() {
	case "append":
		if len(args) == 1 {
			return args[0]
		}
		dst := args[0].([]value)
		var src []value
		switch s := args[1].(type) {
		case string, *sstr:
			src = strBytes(s)
		case []value:
			src = s
		}
		return i.appendSlice(dst, src, fn.Type().(*types.Signature).Params().At(0).Type())

	case "copy":
		dst := args[0].([]value)
		var src []value
		switch s := args[1].(type) {
		case string, *sstr:
			src = strBytes(s)
		case []value:
			src = s
		}
		n := len(dst)
		if len(src) < n {
			n = len(src)
		}
		if n > 0 && len(src) > 0 && &dst[0] != &src[0] {
			// handle overlap like memmove
			tmp := make([]value, n)
			for k := 0; k < n; k++ {
				tmp[k] = copyVal(i.read(&src[k]))
			}
			for k := 0; k < n; k++ {
				i.write(&dst[k], tmp[k])
			}
		}
		return int64(n)

	case "clear":
		switch x := args[0].(type) {
		case []value:
			et := fn.Type().(*types.Signature).Params().At(0).Type().Underlying().(*types.Slice).Elem()
			for k := range x {
				i.store(et, &x[k], zero(et))
			}
		case *omap:
			if x != nil {
				for _, e := range append([]*mapEntry(nil), x.ents...) {
					if !e.deleted {
						i.mapDelete(x, e.k)
					}
				}
			}
		}
		return nil

	case "close":
		i.unsupported("close(chan)")

	case "delete":
		i.mapDelete(args[0].(*omap), args[1])
		return nil

	case "print", "println":
		return nil

	case "len":
		switch x := args[0].(type) {
		case string, *sstr:
			return int64(strLen(x))
		case array:
			return int64(len(x))
		case *value:
			return int64(len((*x).(array)))
		case []value:
			return int64(len(x))
		case *omap:
			return int64(x.len())
		default:
			panic(fmt.Sprintf("len: illegal operand: %T", x))
		}

	case "cap":
		switch x := args[0].(type) {
		case array:
			return int64(len(x))
		case *value:
			return int64(len((*x).(array)))
		case []value:
			return int64(cap(x))
		default:
			panic(fmt.Sprintf("cap: illegal operand: %T", x))
		}

	case "min", "max":
		sig := fn.Type().(*types.Signature)
		t := sig.Params().At(0).Type()
		x := args[0]
		for _, y := range args[1:] {
			var lt value
			if fn.Name() == "min" {
				lt = i.binop(token.LSS, t, t, y, x)
			} else {
				lt = i.binop(token.GTR, t, t, y, x)
			}
			switch c := lt.(type) {
			case bool:
				if c {
					x = y
				}
			case *Term:
				if w, s, ok := intInfo(t); ok {
					x = fromTerm(i.ts.Ite(c, i.toTerm(y, w), i.toTerm(x, w)), s)
				} else if i.decide(c) {
					x = y
				}
			}
		}
		return x

	case "panic":
		panic(targetPanic{args[0]})

	case "recover":
		return i.doRecover(caller)

	case "ssa:wrapnilchk":
		recv := args[0]
		if recv.(*value) == nil {
			i.rtPanic(fmt.Sprintf("value method %v.%v called using nil pointer", toString(args[1]), toString(args[2])))
		}
		return recv

	case "ssa:deferstack":
		return &caller.defers
	}
	panic("unknown built-in: " + fn.Name())
}

// appendSlice implements append(dst, src...) with Go's growth rule approximated (double).
func (i *Interp) appendSlice(dst, src []value, st types.Type) []value {
	if len(src) == 0 {
		return dst
	}
	n := len(dst) + len(src)
	if n <= cap(dst) {
		r := dst[:n]
		for k, v := range src {
			i.write(&r[len(dst)+k], copyVal(v))
		}
		return r
	}
	if i.allocTrack {
		i.allocEvent("append growth of " + typeString(st))
	}
	newcap := cap(dst) * 2
	if newcap < n {
		newcap = n
	}
	r := make([]value, n, newcap)
	for k := range dst {
		r[k] = copyVal(i.read(&dst[k]))
	}
	for k, v := range src {
		r[len(dst)+k] = copyVal(v)
	}
	var et types.Type
	if sl, ok := st.Underlying().(*types.Slice); ok {
		et = sl.Elem()
	}
	full := r[:newcap]
	for k := n; k < newcap; k++ {
		if et != nil {
			full[k] = zero(et)
		} else {
			full[k] = int64(0)
		}
	}
	return r
}

type iterator interface {
	next(i *Interp) tuple
}

type mapIter struct {
	m   *omap
	pos int
}

func (it *mapIter) next(i *Interp) tuple {
	if it.m != nil {
		for it.pos < len(it.m.ents) {
			e := it.m.ents[it.pos]
			it.pos++
			if !e.deleted {
				return tuple{true, e.k, copyVal(e.v)}
			}
		}
	}
	return tuple{false, nil, nil}
}

type stringIter struct {
	s   value
	pos int
}

func (it *stringIter) next(i *Interp) tuple {
	n := strLen(it.s)
	if it.pos >= n {
		return tuple{false, int64(0), int64(0)}
	}
	start := it.pos
	if s, ok := it.s.(string); ok {
		r, sz := utf8.DecodeRuneInString(s[it.pos:])
		it.pos += sz
		return tuple{true, int64(start), int64(r)}
	}
	bs := it.s.(*sstr).b
	b0 := bs[it.pos]
	if t, ok := b0.(*Term); ok {
		ascii := i.ts.Cmp(OpBVUlt, t, i.ts.Const(0x80, 8))
		if i.decide(ascii) {
			it.pos++
			return tuple{true, int64(start), fromTerm(i.ts.ZeroExt(t, 32), true)}
		}
	}
	// multi-byte (or concrete lead byte): concretise up to 4 bytes and decode natively
	var buf []byte
	for k := it.pos; k < n && len(buf) < 4; k++ {
		switch b := bs[k].(type) {
		case int64:
			buf = append(buf, byte(b))
		case *Term:
			buf = append(buf, byte(i.concretize(b)))
		}
		if utf8.FullRune(buf) {
			break
		}
	}
	r, sz := utf8.DecodeRune(buf)
	it.pos += sz
	return tuple{true, int64(start), int64(r)}
}

func (i *Interp) rangeIter(x value, t types.Type) iterator {
	switch x := x.(type) {
	case *omap:
		return &mapIter{m: x}
	case string, *sstr:
		return &stringIter{s: x}
	}
	panic(fmt.Sprintf("cannot range over %T", x))
}

// conv implements ssa.Convert.
func (i *Interp) conv(tDst, tSrc types.Type, x value) value {
	utSrc := tSrc.Underlying()
	utDst := tDst.Underlying()

	switch utSrc := utSrc.(type) {
	case *types.Pointer:
		if b, ok := utDst.(*types.Basic); ok && b.Kind() == types.UnsafePointer {
			return x
		}
	case *types.Slice:
		// []byte or []rune -> string
		eb, ok := utSrc.Elem().Underlying().(*types.Basic)
		if ok && isStringType(utDst) {
			xs := x.([]value)
			switch eb.Kind() {
			case types.Byte:
				if i.allocTrack && len(xs) > 0 {
					i.allocEvent("[]byte->string")
				}
				b := make([]value, len(xs))
				for k := range xs {
					b[k] = i.read(&xs[k])
				}
				return mkStr(b)
			case types.Rune:
				rs := make([]rune, len(xs))
				for k := range xs {
					r, ok := xs[k].(int64)
					if !ok {
						i.unsupported("[]rune->string with symbolic rune")
					}
					rs[k] = rune(r)
				}
				return string(rs)
			}
		}
	case *types.Basic:
		// string -> []byte / []rune / string
		if utSrc.Info()&types.IsString != 0 {
			switch utDst := utDst.(type) {
			case *types.Slice:
				switch utDst.Elem().Underlying().(*types.Basic).Kind() {
				case types.Byte:
					if i.allocTrack && strLen(x) > 0 {
						i.allocEvent("string->[]byte")
					}
					src := strBytes(x)
					res := make([]value, len(src))
					copy(res, src)
					return res
				case types.Rune:
					s, ok := x.(string)
					if !ok {
						i.unsupported("string->[]rune of symbolic string")
					}
					var res []value
					for _, r := range s {
						res = append(res, int64(r))
					}
					return res
				}
			case *types.Basic:
				if utDst.Info()&types.IsString != 0 {
					return x
				}
			}
			break
		}
		if utSrc.Kind() == types.UnsafePointer {
			return x
		}
		dstB, ok := utDst.(*types.Basic)
		if !ok {
			break
		}
		// integer -> string
		if utSrc.Info()&types.IsInteger != 0 && dstB.Info()&types.IsString != 0 {
			switch v := x.(type) {
			case int64:
				return string(rune(v))
			case *Term:
				// opaque: only ever used to build messages
				return "�"
			}
		}
		// numeric conversions
		if utSrc.Info()&types.IsInteger != 0 {
			sw, ss, _ := intInfo(utSrc)
			if dw, ds, ok := intInfo(dstB); ok {
				switch v := x.(type) {
				case int64:
					return norm(v, dw, ds)
				case *Term:
					var r *Term
					if dw <= sw {
						r = i.ts.Extract(v, dw-1, 0)
					} else if ss {
						r = i.ts.SignExt(v, dw)
					} else {
						r = i.ts.ZeroExt(v, dw)
					}
					return fromTerm(r, ds)
				}
			}
			if dstB.Info()&types.IsFloat != 0 {
				v, ok := x.(int64)
				if !ok {
					i.unsupported("symbolic int -> float")
				}
				var f float64
				if ss {
					f = float64(v)
				} else {
					f = float64(uint64(v))
				}
				if dstB.Kind() == types.Float32 {
					f = float64(float32(f))
				}
				return f
			}
		}
		if utSrc.Info()&types.IsFloat != 0 {
			f := x.(float64)
			if dw, ds, ok := intInfo(dstB); ok {
				if ds {
					return norm(int64(f), dw, ds)
				}
				if f >= math.MaxInt64 {
					return norm(int64(uint64(f)), dw, ds)
				}
				return norm(int64(f), dw, ds)
			}
			if dstB.Kind() == types.Float32 {
				return float64(float32(f))
			}
			return f
		}
	}
	panic(fmt.Sprintf("unsupported conversion: %s -> %s, dynamic type %T", tSrc, tDst, x))
}
