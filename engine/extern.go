package main

// Intrinsics: the sym API and models of library functions that cannot be interpreted from SSA.

import (
	"fmt"
	"go/token"
	"go/types"
	"net/textproto"
	"regexp"
	"sort"
	"strconv"
	"strings"

	"golang.org/x/tools/go/ssa"
)

type externalFn func(fr *frame, args []value) value

var externals = map[string]externalFn{}

const symPkg = "verif/harness/sym."

func (i *Interp) external(fn *ssa.Function) externalFn {
	if e, ok := i.extCache[fn]; ok {
		return e
	}
	if i.extMiss[fn] {
		return nil
	}
	name := fn.String()
	if o := fn.Origin(); o != nil {
		name = o.String()
	}
	if fn.Parent() == nil {
		if e, ok := externals[name]; ok {
			i.extCache[fn] = e
			return e
		}
		// package initialisers of packages we do not initialise are skipped
		if fn.Name() == "init" && fn.Pkg != nil && fn.Signature.Recv() == nil && !i.initPkgs[fn.Pkg] {
			e := func(fr *frame, args []value) value { return nil }
			i.extCache[fn] = e
			return e
		}
	}
	i.extMiss[fn] = true
	return nil
}

func (i *Interp) cstr(v value, what string) string {
	s, ok := v.(string)
	if !ok {
		i.unsupported("%s needs a concrete string", what)
	}
	return s
}

func (i *Interp) cint(v value, what string) int {
	switch x := v.(type) {
	case int64:
		return int(x)
	case *Term:
		return int(sext(i.concretize(x), x.w))
	}
	panic("cint " + what)
}

// byteEqDecide decides a == b for two byte values, forking if symbolic.
func (i *Interp) byteEqDecide(a, b value) bool {
	ai, ac := a.(int64)
	bi, bc := b.(int64)
	if ac && bc {
		return ai == bi
	}
	return i.decide(i.ts.Eq(i.toTerm(a, 8), i.toTerm(b, 8)))
}

func (i *Interp) indexByte(s []value, c value) int {
	for k := range s {
		if i.byteEqDecide(s[k], c) {
			return k
		}
	}
	return -1
}

func (i *Interp) lastIndexByte(s []value, c value) int {
	for k := len(s) - 1; k >= 0; k-- {
		if i.byteEqDecide(s[k], c) {
			return k
		}
	}
	return -1
}

func (i *Interp) bytesEqDecide(a, b []value) bool {
	if len(a) != len(b) {
		return false
	}
	acc := i.ts.tt
	for k := range a {
		acc = i.ts.And(acc, i.ts.Eq(i.toTerm(a[k], 8), i.toTerm(b[k], 8)))
		if acc.IsFalse() {
			return false
		}
	}
	if acc.IsTrue() {
		return true
	}
	return i.decide(acc)
}

func (i *Interp) indexSub(s, sub []value) int {
	if len(sub) == 0 {
		return 0
	}
	for k := 0; k+len(sub) <= len(s); k++ {
		if i.bytesEqDecide(s[k:k+len(sub)], sub) {
			return k
		}
	}
	return -1
}

func (i *Interp) lastIndexSub(s, sub []value) int {
	if len(sub) == 0 {
		return len(s)
	}
	for k := len(s) - len(sub); k >= 0; k-- {
		if i.bytesEqDecide(s[k:k+len(sub)], sub) {
			return k
		}
	}
	return -1
}

func (i *Interp) sliceVals(v value) []value {
	xs := v.([]value)
	r := make([]value, len(xs))
	for k := range xs {
		r[k] = i.read(&xs[k])
	}
	return r
}

func (i *Interp) errorIface(v value) (iface, bool) {
	f, ok := v.(iface)
	return f, ok
}

// callMethod calls method name on an interface value (nil if absent).
func (i *Interp) callMethod(fr *frame, recv iface, name string, args ...value) (value, bool) {
	if recv.t == nil {
		return nil, false
	}
	var pkg *types.Package
	m := i.prog.LookupMethod(recv.t, pkg, name)
	if m == nil {
		// unexported or missing
		return nil, false
	}
	all := append([]value{recv.v}, args...)
	return i.call(fr, token.NoPos, m, all), true
}

func hasMethod(t types.Type, name string) *types.Func {
	ms := types.NewMethodSet(t)
	for k := 0; k < ms.Len(); k++ {
		if ms.At(k).Obj().Name() == name {
			return ms.At(k).Obj().(*types.Func)
		}
	}
	return nil
}

// errorsIs implements errors.Is by walking Unwrap chains.
func (i *Interp) errorsIs(fr *frame, err, target iface) bool {
	if err.t == nil || target.t == nil {
		return err.t == nil && target.t == nil
	}
	isComparable := types.Comparable(target.t)
	var walk func(e iface) bool
	walk = func(e iface) bool {
		for {
			if e.t == nil {
				return false
			}
			if isComparable && types.Identical(e.t, target.t) {
				r := i.equals(e.t, e.v, target.v)
				if b, ok := r.(bool); ok {
					if b {
						return true
					}
				} else if i.decide(r.(*Term)) {
					return true
				}
			}
			if m := hasMethod(e.t, "Is"); m != nil {
				if sig := m.Type().(*types.Signature); sig.Params().Len() == 1 && sig.Results().Len() == 1 {
					r, _ := i.callMethod(fr, e, "Is", target)
					if b, ok := r.(bool); ok && b {
						return true
					}
				}
			}
			m := hasMethod(e.t, "Unwrap")
			if m == nil {
				return false
			}
			sig := m.Type().(*types.Signature)
			if sig.Params().Len() != 0 || sig.Results().Len() != 1 {
				return false
			}
			r, _ := i.callMethod(fr, e, "Unwrap")
			switch r := r.(type) {
			case iface:
				e = r
			case []value:
				for _, x := range r {
					if walk(x.(iface)) {
						return true
					}
				}
				return false
			default:
				return false
			}
		}
	}
	return walk(err)
}

// errorsAs implements errors.As for a pointer target.
func (i *Interp) errorsAs(fr *frame, err iface, target iface) bool {
	if target.t == nil {
		i.rtPanic("errors: target cannot be nil")
	}
	pt, ok := target.t.Underlying().(*types.Pointer)
	if !ok {
		i.rtPanic("errors: target must be a non-nil pointer")
	}
	tt := pt.Elem()
	cell := target.v.(*value)
	var walk func(e iface) bool
	walk = func(e iface) bool {
		for {
			if e.t == nil {
				return false
			}
			if it, isI := tt.Underlying().(*types.Interface); isI {
				if types.Implements(e.t, it) {
					i.write(cell, e)
					return true
				}
			} else if types.Identical(e.t, tt) {
				i.store(tt, cell, e.v)
				return true
			}
			m := hasMethod(e.t, "Unwrap")
			if m == nil {
				return false
			}
			sig := m.Type().(*types.Signature)
			if sig.Params().Len() != 0 || sig.Results().Len() != 1 {
				return false
			}
			r, _ := i.callMethod(fr, e, "Unwrap")
			switch r := r.(type) {
			case iface:
				e = r
			case []value:
				for _, x := range r {
					if walk(x.(iface)) {
						return true
					}
				}
				return false
			default:
				return false
			}
		}
	}
	return walk(err)
}

// namedType finds a named type by "pkgpath.Name".
func (i *Interp) namedType(path, name string) types.Type {
	key := path + "." + name
	if t, ok := i.typeByName[key]; ok {
		return t
	}
	for _, p := range i.prog.AllPackages() {
		if p.Pkg.Path() == path {
			if m := p.Members[name]; m != nil {
				if tt, ok := m.(*ssa.Type); ok {
					i.typeByName[key] = tt.Type()
					return tt.Type()
				}
			}
			if o := p.Pkg.Scope().Lookup(name); o != nil {
				i.typeByName[key] = o.Type()
				return o.Type()
			}
		}
	}
	panic("type not found: " + key)
}

// formatValue renders one operand for the mini Sprintf.
func (i *Interp) formatValue(fr *frame, verb byte, a value) value {
	f, ok := a.(iface)
	if !ok {
		return "?"
	}
	if f.t == nil {
		return "<nil>"
	}
	if verb != 'T' && verb != 'p' {
		if m := hasMethod(f.t, "Error"); m != nil {
			if r, ok := i.callMethod(fr, f, "Error"); ok {
				return r
			}
		}
		if m := hasMethod(f.t, "String"); m != nil && verb != 'd' {
			if sig := m.Type().(*types.Signature); sig.Params().Len() == 0 && sig.Results().Len() == 1 && isStringType(sig.Results().At(0).Type()) {
				if r, ok := i.callMethod(fr, f, "String"); ok {
					return r
				}
			}
		}
	}
	switch v := f.v.(type) {
	case string:
		if verb == 'q' {
			return strconv.Quote(v)
		}
		return v
	case *sstr:
		return v
	case int64:
		_, signed, _ := intInfo(f.t)
		if verb == 'c' {
			return string(rune(v))
		}
		if verb == 'x' {
			return strconv.FormatUint(uint64(v), 16)
		}
		if signed {
			return strconv.FormatInt(v, 10)
		}
		return strconv.FormatUint(uint64(v), 10)
	case bool:
		return strconv.FormatBool(v)
	case float64:
		return strconv.FormatFloat(v, 'g', -1, 64)
	case *Term:
		return "<sym>"
	case []value:
		if b, ok := f.t.Underlying().(*types.Slice); ok {
			if e, ok := b.Elem().Underlying().(*types.Basic); ok && e.Kind() == types.Byte && (verb == 's' || verb == 'q') {
				return mkStr(i.sliceVals(v))
			}
		}
		return "[...]"
	}
	return "<" + typeString(f.t) + ">"
}

// sprintf is a small model of fmt's formatting: %s %v %d %q %w %c %x %T %%; flags/width ignored.
func (i *Interp) sprintf(fr *frame, format string, args []value) (value, []iface) {
	var out []value
	var wrapped []iface
	ai := 0
	emit := func(v value) {
		out = append(out, strBytes(v)...)
	}
	for k := 0; k < len(format); k++ {
		c := format[k]
		if c != '%' {
			out = append(out, int64(c))
			continue
		}
		k++
		for k < len(format) && strings.IndexByte("+-# 0123456789.*", format[k]) >= 0 {
			k++
		}
		if k >= len(format) {
			emit("%!(NOVERB)")
			break
		}
		verb := format[k]
		if verb == '%' {
			out = append(out, int64('%'))
			continue
		}
		if ai >= len(args) {
			emit("%!" + string(verb) + "(MISSING)")
			continue
		}
		a := args[ai]
		ai++
		if verb == 'w' {
			if f, ok := a.(iface); ok && f.t != nil {
				wrapped = append(wrapped, f)
			}
		}
		if verb == 'T' {
			if f, ok := a.(iface); ok {
				emit(typeString(f.t))
				continue
			}
		}
		emit(i.formatValue(fr, verb, a))
	}
	return mkStr(out), wrapped
}

func (i *Interp) sprint(fr *frame, args []value, ln bool) value {
	var out []value
	for k, a := range args {
		if k > 0 && ln {
			out = append(out, int64(' '))
		}
		out = append(out, strBytes(i.formatValue(fr, 'v', a))...)
	}
	if ln {
		out = append(out, int64('\n'))
	}
	return mkStr(out)
}

// writeTo calls w.Write(p) on an io.Writer interface value; returns (n, err) tuple.
func (i *Interp) writeTo(fr *frame, w iface, s value) value {
	bs := strBytes(s)
	buf := make([]value, len(bs))
	copy(buf, bs)
	// *strings.Builder and friends go through their own Write methods
	r, ok := i.callMethod(fr, w, "Write", buf)
	if !ok {
		i.rtPanic("invalid memory address or nil pointer dereference (nil io.Writer)")
	}
	return r
}

func (i *Interp) mkError(fr *frame, msg value) iface {
	// errors.New(msg) interpreted: &errors.errorString{msg}
	t := i.namedType("errors", "errorString")
	cell := new(value)
	*cell = structure{msg}
	return iface{t: types.NewPointer(t), v: cell}
}

func builderBuf(b value) *value {
	p := b.(*value)
	return &(*p).(structure)[1]
}

func init() {
	ext := externals

	// ---- sym API ---------------------------------------------------------------------------
	ext[symPkg+"Symbolic"] = func(fr *frame, a []value) value { return true }
	ext[symPkg+"Param"] = func(fr *frame, a []value) value {
		i := fr.i
		name := i.cstr(a[0], "sym.Param")
		v, ok := i.job.Params[name]
		if !ok {
			i.unsupported("missing job parameter %q", name)
		}
		return int64(v)
	}
	ext[symPkg+"ParamOr"] = func(fr *frame, a []value) value {
		i := fr.i
		if v, ok := i.job.Params[i.cstr(a[0], "sym.ParamOr")]; ok {
			return int64(v)
		}
		return a[1]
	}
	ext[symPkg+"Byte"] = func(fr *frame, a []value) value {
		i := fr.i
		name := i.cstr(a[0], "sym.Byte")
		return i.freshVarNamed(name, "b_"+smtName(name), 8)
	}
	ext[symPkg+"Bool"] = func(fr *frame, a []value) value {
		i := fr.i
		name := i.cstr(a[0], "sym.Bool")
		// witness stores ints: model a bool as (v != 0) over one bit-vector byte
		v := i.freshVarNamed(name, "i_"+smtName(name), 8)
		return fromTerm(i.ts.Not(i.ts.Eq(v, i.ts.Const(0, 8))), false)
	}
	ext[symPkg+"Uint32"] = func(fr *frame, a []value) value {
		i := fr.i
		name := i.cstr(a[0], "sym.Uint32")
		return i.freshVarNamed(name, "i_"+smtName(name), 32)
	}
	ext[symPkg+"Uint64"] = func(fr *frame, a []value) value {
		i := fr.i
		name := i.cstr(a[0], "sym.Uint64")
		return i.freshVarNamed(name, "i_"+smtName(name), 64)
	}
	ext[symPkg+"Int"] = func(fr *frame, a []value) value {
		i := fr.i
		name := i.cstr(a[0], "sym.Int")
		lo, hi := int64(i.cint(a[1], "lo")), int64(i.cint(a[2], "hi"))
		if lo == hi {
			return lo
		}
		v := i.freshVarNamed(name, "i_"+smtName(name), 64)
		c := i.ts.And(i.ts.Cmp(OpBVSle, i.ts.Const(uint64(lo), 64), v), i.ts.Cmp(OpBVSle, v, i.ts.Const(uint64(hi), 64)))
		i.assume(c)
		return v
	}
	ext[symPkg+"Choose"] = func(fr *frame, a []value) value {
		i := fr.i
		name := i.cstr(a[0], "sym.Choose")
		k := int64(i.cint(a[1], "k"))
		if k <= 1 {
			return int64(0)
		}
		v := i.freshVarNamed(name, "i_"+smtName(name), 64)
		if i.ps.noDecide {
			i.unsupported("sym.Choose during setup")
		}
		// a fresh variable constrained only by its range: every value is feasible, no query needed
		for j := int64(0); j < k-1; j++ {
			if i.decideKnown(i.ts.Eq(v, i.ts.Const(uint64(j), 64))) {
				return j
			}
		}
		i.assertPC(i.ts.Eq(v, i.ts.Const(uint64(k-1), 64)))
		return k - 1
	}
	ext[symPkg+"String"] = func(fr *frame, a []value) value {
		i := fr.i
		name := i.cstr(a[0], "sym.String")
		n := i.cint(a[1], "n")
		return mkStr(i.freshBytes(name, n))
	}
	ext[symPkg+"Bytes"] = func(fr *frame, a []value) value {
		i := fr.i
		name := i.cstr(a[0], "sym.Bytes")
		n := i.cint(a[1], "n")
		return i.freshBytes(name, n)
	}
	ext[symPkg+"Assume"] = func(fr *frame, a []value) value {
		i := fr.i
		switch c := a[0].(type) {
		case bool:
			if !c {
				panic(pathEnd{kind: "assume"})
			}
		case *Term:
			i.assume(c)
		}
		return nil
	}
	ext[symPkg+"Assert"] = func(fr *frame, a []value) value {
		fr.i.assert(a[0], a[1])
		return nil
	}
	ext[symPkg+"Fail"] = func(fr *frame, a []value) value {
		fr.i.assert(false, a[0])
		return nil
	}
	ext[symPkg+"Cover"] = func(fr *frame, a []value) value {
		i := fr.i
		i.ps.covers[i.cstr(a[0], "sym.Cover")] = true
		return nil
	}
	ext[symPkg+"Freeze"] = func(fr *frame, a []value) value {
		fr.i.freeze(a[0])
		return nil
	}
	ext[symPkg+"Unfreeze"] = func(fr *frame, a []value) value {
		fr.i.frozen = nil
		return nil
	}
	ext[symPkg+"AllocMark"] = func(fr *frame, a []value) value {
		fr.i.allocTrack = true
		return int64(fr.i.allocEvents)
	}
	ext[symPkg+"Threads"] = func(fr *frame, a []value) value {
		i := fr.i
		if i.ps.noDecide {
			i.unsupported("sym.Threads during setup")
		}
		i.threads = newThreadState(i.cint(a[0], "maxPreempt"))
		return nil
	}
	ext[symPkg+"ThreadsPool"] = func(fr *frame, a []value) value {
		i := fr.i
		if i.ps.noDecide {
			i.unsupported("sym.ThreadsPool during setup")
		}
		i.threads = newThreadState(i.cint(a[0], "maxPreempt"))
		i.threads.poolSync = true
		return nil
	}
	ext[symPkg+"Go"] = func(fr *frame, a []value) value {
		i := fr.i
		if i.threads == nil {
			i.unsupported("sym.Go without sym.Threads")
		}
		i.threads.spawn(i, fr, nil, a[0], nil)
		return nil
	}
	ext[symPkg+"Join"] = func(fr *frame, a []value) value {
		i := fr.i
		if i.threads != nil {
			i.threads.join(i)
		}
		return nil
	}
	ext[symPkg+"WouldBlock"] = func(fr *frame, a []value) (res value) {
		i := fr.i
		res = false
		// a call that spins without end (polling a flag nobody can change any more) blocks just as well:
		// inside WouldBlock the instruction budget is small and running out of it counts as blocked
		saved := i.maxSteps
		if i.steps+3_000_000 < i.maxSteps {
			i.maxSteps = i.steps + 3_000_000
		}
		defer func() {
			exhausted := i.steps > i.maxSteps
			i.maxSteps = saved
			if r := recover(); r != nil {
				if pe, ok := r.(pathEnd); ok && (pe.kind == "deadlock" || (pe.kind == "budget" && exhausted && i.steps <= saved)) {
					res = true
					return
				}
				panic(r)
			}
		}()
		i.call(fr, token.NoPos, a[0], nil)
		return false
	}
	// sym.Atomic(f): f runs without scheduling points, ordered after every earlier atomic section (harness-side
	// bookkeeping shared by threads; natively a mutex of the sym package)
	ext[symPkg+"Atomic"] = func(fr *frame, a []value) value {
		i := fr.i
		if t := i.threads; t != nil {
			t.inAtomic++
			t.acquire(i, "sym.Atomic")
			defer func() {
				t.release(i, "sym.Atomic")
				t.inAtomic--
			}()
		}
		i.call(fr, token.NoPos, a[0], nil)
		return nil
	}
	ext[symPkg+"ByteIn"] = func(fr *frame, a []value) value {
		i := fr.i
		set := i.cstr(a[1], "sym.ByteIn set")
		switch b := a[0].(type) {
		case int64:
			return strings.IndexByte(set, byte(b)) >= 0
		case *Term:
			acc := i.ts.ff
			for k := 0; k < len(set); k++ {
				acc = i.ts.Or(acc, i.ts.Eq(b, i.ts.Const(uint64(set[k]), 8)))
			}
			return fromTerm(acc, false)
		}
		panic("sym.ByteIn")
	}
	ext[symPkg+"PoolAllChoices"] = func(fr *frame, a []value) value {
		fr.i.poolChoice = a[0].(bool)
		return nil
	}
	ext[symPkg+"Load"] = func(fr *frame, a []value) value { fr.i.unsupported("sym.Load under executor"); return nil }

	// ---- bytealg / strings / bytes -----------------------------------------------------------
	ext["internal/bytealg.IndexByteString"] = func(fr *frame, a []value) value {
		return int64(fr.i.indexByte(strBytes(a[0]), a[1]))
	}
	ext["internal/bytealg.IndexByte"] = func(fr *frame, a []value) value {
		return int64(fr.i.indexByte(fr.i.sliceVals(a[0]), a[1]))
	}
	ext["internal/bytealg.LastIndexByteString"] = func(fr *frame, a []value) value {
		return int64(fr.i.lastIndexByte(strBytes(a[0]), a[1]))
	}
	ext["internal/bytealg.LastIndexByte"] = func(fr *frame, a []value) value {
		return int64(fr.i.lastIndexByte(fr.i.sliceVals(a[0]), a[1]))
	}
	ext["strings.Index"] = func(fr *frame, a []value) value {
		return int64(fr.i.indexSub(strBytes(a[0]), strBytes(a[1])))
	}
	ext["internal/stringslite.Index"] = ext["strings.Index"]
	ext["strings.LastIndex"] = func(fr *frame, a []value) value {
		return int64(fr.i.lastIndexSub(strBytes(a[0]), strBytes(a[1])))
	}
	ext["bytes.Index"] = func(fr *frame, a []value) value {
		return int64(fr.i.indexSub(fr.i.sliceVals(a[0]), fr.i.sliceVals(a[1])))
	}
	ext["bytes.Equal"] = func(fr *frame, a []value) value {
		i := fr.i
		return i.strEq(mkStr(i.sliceVals(a[0])), mkStr(i.sliceVals(a[1])))
	}
	ext["internal/bytealg.Equal"] = ext["bytes.Equal"]
	ext["internal/bytealg.CountString"] = func(fr *frame, a []value) value {
		i := fr.i
		n := 0
		for _, b := range strBytes(a[0]) {
			if i.byteEqDecide(b, a[1]) {
				n++
			}
		}
		return int64(n)
	}
	ext["internal/bytealg.MakeNoZero"] = func(fr *frame, a []value) value {
		n := fr.i.cint(a[0], "MakeNoZero")
		s := make([]value, n)
		for k := range s {
			s[k] = int64(0)
		}
		return s
	}
	ext["strings.ToLower"] = func(fr *frame, a []value) value {
		i := fr.i
		if s, ok := a[0].(string); ok {
			return strings.ToLower(s)
		}
		bs := strBytes(a[0])
		out := make([]value, len(bs))
		for k, b := range bs {
			switch b := b.(type) {
			case int64:
				if b >= 0x80 {
					i.unsupported("strings.ToLower on non-ASCII symbolic string")
				}
				out[k] = int64(strings.ToLower(string(rune(b)))[0])
			case *Term:
				// assume ASCII (stated): non-ASCII symbolic bytes are out of the model
				if i.decide(i.ts.Cmp(OpBVUle, i.ts.Const(0x80, 8), b)) {
					i.unsupported("strings.ToLower on non-ASCII symbolic byte")
				}
				isUp := i.ts.And(i.ts.Cmp(OpBVUle, i.ts.Const('A', 8), b), i.ts.Cmp(OpBVUle, b, i.ts.Const('Z', 8)))
				out[k] = fromTerm(i.ts.Ite(isUp, i.ts.BV(OpBVAdd, b, i.ts.Const(32, 8)), b), false)
			}
		}
		return mkStr(out)
	}
	ext["strings.EqualFold"] = func(fr *frame, a []value) value {
		i := fr.i
		if x, ok := a[0].(string); ok {
			if y, ok := a[1].(string); ok {
				return strings.EqualFold(x, y)
			}
		}
		xb, yb := strBytes(a[0]), strBytes(a[1])
		// ASCII model: every symbolic byte must be < 0x80 (otherwise unsupported); concrete non-ASCII too
		ascii := func(bs []value) {
			for _, b := range bs {
				switch b := b.(type) {
				case int64:
					if b >= 0x80 {
						i.unsupported("strings.EqualFold with non-ASCII text and a symbolic operand")
					}
				case *Term:
					if i.decide(i.ts.Cmp(OpBVUle, i.ts.Const(0x80, 8), b)) {
						i.unsupported("strings.EqualFold on a non-ASCII symbolic byte")
					}
				}
			}
		}
		// a concrete ASCII operand without k/s (the only ASCII letters with non-ASCII case-fold partners, U+212A
		// and U+017F) can only equal-fold byte for byte: non-ASCII bytes on the other side simply differ
		plainASCII := func(v value) bool {
			c, ok := v.(string)
			if !ok {
				return false
			}
			for k := 0; k < len(c); k++ {
				if c[k] >= 0x80 || c[k] == 'k' || c[k] == 'K' || c[k] == 's' || c[k] == 'S' {
					return false
				}
			}
			return true
		}
		if !plainASCII(a[0]) && !plainASCII(a[1]) {
			ascii(xb)
			ascii(yb)
		}
		if len(xb) != len(yb) {
			return false
		}
		fold := func(v value) *Term {
			t := i.toTerm(v, 8)
			up := i.ts.And(i.ts.Cmp(OpBVUle, i.ts.Const('A', 8), t), i.ts.Cmp(OpBVUle, t, i.ts.Const('Z', 8)))
			return i.ts.Ite(up, i.ts.BV(OpBVAdd, t, i.ts.Const(32, 8)), t)
		}
		acc := i.ts.tt
		for k := range xb {
			acc = i.ts.And(acc, i.ts.Eq(fold(xb[k]), fold(yb[k])))
			if acc.IsFalse() {
				return false
			}
		}
		return fromTerm(acc, false)
	}
	ext["strings.TrimSpace"] = func(fr *frame, a []value) value {
		i := fr.i
		if s, ok := a[0].(string); ok {
			return strings.TrimSpace(s)
		}
		// symbolic: ASCII white space is trimmed; a non-ASCII byte at either end would take the Unicode path
		// (U+0085, U+00A0): those inputs are outside the model (path pruned, stated)
		bs := strBytes(a[0])
		isSpace := func(v value) bool {
			switch b := v.(type) {
			case int64:
				if b >= 0x80 {
					panic(pathEnd{kind: "assume", msg: "strings.TrimSpace: non-ASCII byte at the end of a symbolic string"})
				}
				return b == ' ' || b == '\t' || b == '\n' || b == '\v' || b == '\f' || b == '\r'
			case *Term:
				if i.decide(i.ts.Cmp(OpBVUle, i.ts.Const(0x80, 8), b)) {
					panic(pathEnd{kind: "assume", msg: "strings.TrimSpace: non-ASCII byte at the end of a symbolic string"})
				}
				sp := i.ts.Eq(b, i.ts.Const(' ', 8))
				for _, c := range []byte{'\t', '\n', '\v', '\f', '\r'} {
					sp = i.ts.Or(sp, i.ts.Eq(b, i.ts.Const(uint64(c), 8)))
				}
				return i.decide(sp)
			}
			return false
		}
		lo, hi := 0, len(bs)
		for lo < hi && isSpace(bs[lo]) {
			lo++
		}
		for hi > lo && isSpace(bs[hi-1]) {
			hi--
		}
		return mkStr(bs[lo:hi:hi])
	}
	ext["strings.Repeat"] = func(fr *frame, a []value) value {
		return strings.Repeat(fr.i.cstr(a[0], "strings.Repeat"), fr.i.cint(a[1], "count"))
	}
	ext["strings.Join"] = func(fr *frame, a []value) value {
		i := fr.i
		elems := i.sliceVals(a[0])
		sep := strBytes(a[1])
		var out []value
		for k, e := range elems {
			if k > 0 {
				out = append(out, sep...)
			}
			out = append(out, strBytes(e)...)
		}
		return mkStr(out)
	}

	// strings.Builder (its methods use unsafe)
	ext["(*strings.Builder).String"] = func(fr *frame, a []value) value {
		return mkStr(fr.i.sliceVals(fr.i.read(builderBuf(a[0]))))
	}
	ext["(*strings.Builder).Len"] = func(fr *frame, a []value) value {
		return int64(len(fr.i.read(builderBuf(a[0])).([]value)))
	}
	ext["(*strings.Builder).Cap"] = func(fr *frame, a []value) value {
		return int64(cap(fr.i.read(builderBuf(a[0])).([]value)))
	}
	ext["(*strings.Builder).Reset"] = func(fr *frame, a []value) value {
		fr.i.write(builderBuf(a[0]), []value(nil))
		return nil
	}
	ext["(*strings.Builder).Grow"] = func(fr *frame, a []value) value {
		i := fr.i
		n := i.cint(a[1], "Grow")
		if n < 0 {
			panic(targetPanic{iface{t: types.Typ[types.String], v: "strings.Builder.Grow: negative count"}})
		}
		p := builderBuf(a[0])
		buf := i.read(p).([]value)
		if cap(buf)-len(buf) < n {
			if i.allocTrack {
				i.allocEvent("strings.Builder.Grow")
			}
			nb := make([]value, len(buf), 2*cap(buf)+n)
			copy(nb, buf)
			full := nb[:cap(nb)]
			for k := len(buf); k < len(full); k++ {
				full[k] = int64(0)
			}
			i.write(p, nb)
		}
		return nil
	}
	bwrite := func(i *Interp, b value, data []value) {
		p := builderBuf(b)
		buf := i.read(p).([]value)
		i.write(p, i.appendSlice(buf, data, types.NewSlice(types.Typ[types.Byte])))
	}
	ext["(*strings.Builder).WriteString"] = func(fr *frame, a []value) value {
		bs := strBytes(a[1])
		bwrite(fr.i, a[0], bs)
		return tuple{int64(len(bs)), iface{}}
	}
	ext["(*strings.Builder).Write"] = func(fr *frame, a []value) value {
		bs := fr.i.sliceVals(a[1])
		bwrite(fr.i, a[0], bs)
		return tuple{int64(len(bs)), iface{}}
	}
	ext["(*strings.Builder).WriteByte"] = func(fr *frame, a []value) value {
		bwrite(fr.i, a[0], []value{a[1]})
		return iface{}
	}
	ext["(*strings.Builder).WriteRune"] = func(fr *frame, a []value) value {
		r, ok := a[1].(int64)
		if !ok {
			fr.i.unsupported("WriteRune symbolic")
		}
		s := string(rune(r))
		bwrite(fr.i, a[0], strBytes(s))
		return tuple{int64(len(s)), iface{}}
	}
	ext["strings.NewReplacer"] = func(fr *frame, a []value) value {
		var ss []string
		for _, v := range fr.i.sliceVals(a[0]) {
			ss = append(ss, fr.i.cstr(v, "NewReplacer"))
		}
		cell := new(value)
		*cell = &native{strings.NewReplacer(ss...)}
		return cell
	}
	ext["(*strings.Replacer).Replace"] = func(fr *frame, a []value) value {
		i := fr.i
		r := (*a[0].(*value)).(*native).v.(*strings.Replacer)
		if s, ok := a[1].(string); ok {
			return r.Replace(s)
		}
		// symbolic: concretise (only used to build an HTML body; stated)
		bs := strBytes(a[1])
		out := make([]byte, len(bs))
		for k, b := range bs {
			switch b := b.(type) {
			case int64:
				out[k] = byte(b)
			case *Term:
				out[k] = '?'
				_ = i
			}
		}
		return r.Replace(string(out))
	}

	// ---- fmt / errors ------------------------------------------------------------------------
	ext["fmt.Errorf"] = func(fr *frame, a []value) value {
		i := fr.i
		if i.allocTrack {
			i.allocEvent("fmt.Errorf")
		}
		format := i.cstr(a[0], "fmt.Errorf format")
		msg, wrapped := i.sprintf(fr, format, i.sliceVals(a[1]))
		switch len(wrapped) {
		case 0:
			return i.mkError(fr, msg)
		case 1:
			t := i.namedType("fmt", "wrapError")
			cell := new(value)
			*cell = structure{msg, wrapped[0]}
			return iface{t: types.NewPointer(t), v: cell}
		default:
			t := i.namedType("fmt", "wrapErrors")
			errs := make([]value, len(wrapped))
			for k := range wrapped {
				errs[k] = wrapped[k]
			}
			cell := new(value)
			*cell = structure{msg, errs}
			return iface{t: types.NewPointer(t), v: cell}
		}
	}
	ext["fmt.Sprintf"] = func(fr *frame, a []value) value {
		i := fr.i
		if i.allocTrack {
			i.allocEvent("fmt.Sprintf")
		}
		s, _ := i.sprintf(fr, i.cstr(a[0], "fmt.Sprintf format"), i.sliceVals(a[1]))
		return s
	}
	ext["fmt.Sprint"] = func(fr *frame, a []value) value {
		return fr.i.sprint(fr, fr.i.sliceVals(a[0]), false)
	}
	ext["fmt.Sprintln"] = func(fr *frame, a []value) value {
		return fr.i.sprint(fr, fr.i.sliceVals(a[0]), true)
	}
	ext["fmt.Fprintf"] = func(fr *frame, a []value) value {
		i := fr.i
		s, _ := i.sprintf(fr, i.cstr(a[1], "fmt.Fprintf format"), i.sliceVals(a[2]))
		return i.writeTo(fr, a[0].(iface), s)
	}
	ext["fmt.Fprintln"] = func(fr *frame, a []value) value {
		i := fr.i
		return i.writeTo(fr, a[0].(iface), i.sprint(fr, i.sliceVals(a[1]), true))
	}
	ext["fmt.Fprint"] = func(fr *frame, a []value) value {
		i := fr.i
		return i.writeTo(fr, a[0].(iface), i.sprint(fr, i.sliceVals(a[1]), false))
	}
	ext["errors.Is"] = func(fr *frame, a []value) value {
		return fr.i.errorsIs(fr, a[0].(iface), a[1].(iface))
	}
	ext["errors.As"] = func(fr *frame, a []value) value {
		return fr.i.errorsAs(fr, a[0].(iface), a[1].(iface))
	}

	// ---- sync --------------------------------------------------------------------------------
	ext["(*sync.Mutex).Lock"] = func(fr *frame, a []value) value { fr.i.mutexLock(a[0].(*value)); return nil }
	ext["(*sync.Mutex).Unlock"] = func(fr *frame, a []value) value { fr.i.mutexUnlock(a[0].(*value)); return nil }
	ext["(*sync.Mutex).TryLock"] = func(fr *frame, a []value) value { return fr.i.mutexTryLock(a[0].(*value)) }
	ext["(*sync.RWMutex).Lock"] = func(fr *frame, a []value) value { fr.i.rwLock(a[0].(*value), false); return nil }
	ext["(*sync.RWMutex).Unlock"] = func(fr *frame, a []value) value { fr.i.rwUnlock(a[0].(*value), false); return nil }
	ext["(*sync.RWMutex).RLock"] = func(fr *frame, a []value) value { fr.i.rwLock(a[0].(*value), true); return nil }
	ext["(*sync.RWMutex).RUnlock"] = func(fr *frame, a []value) value { fr.i.rwUnlock(a[0].(*value), true); return nil }
	ext["(*sync.Pool).Get"] = func(fr *frame, a []value) value { return fr.i.poolGet(fr, a[0].(*value)) }
	ext["(*sync.Pool).Put"] = func(fr *frame, a []value) value { fr.i.poolPut(a[0].(*value), a[1]); return nil }
	// sync/atomic integer operations on plain cells (atomic.Int32 etc. are thin wrappers around these)
	for _, w := range []struct {
		suffix string
		bits   uint
		signed bool
	}{{"Int32", 32, true}, {"Int64", 64, true}, {"Uint32", 32, false}, {"Uint64", 64, false}, {"Uintptr", 64, false}} {
		w := w
		wrap := func(v int64) int64 {
			if w.bits == 64 {
				return v
			}
			if w.signed {
				return int64(int32(v))
			}
			return int64(uint32(v))
		}
		cellOf := func(fr *frame, v value) *value {
			p, _ := v.(*value)
			if p == nil {
				fr.i.rtPanic("invalid memory address or nil pointer dereference")
			}
			return p
		}
		num := func(fr *frame, v value) int64 {
			if n, ok := v.(int64); ok {
				return n
			}
			fr.i.unsupported("symbolic operand in sync/atomic operation")
			return 0
		}
		ext["sync/atomic.Load"+w.suffix] = func(fr *frame, a []value) value {
			c := cellOf(fr, a[0])
			if t := fr.i.threads; t != nil {
				t.syncPoint(fr.i, "atomic.Load")
				t.acquire(fr.i, c)
			}
			return num(fr, *c)
		}
		ext["sync/atomic.Store"+w.suffix] = func(fr *frame, a []value) value {
			c := cellOf(fr, a[0])
			if t := fr.i.threads; t != nil {
				t.syncPoint(fr.i, "atomic.Store")
				t.release(fr.i, c)
			}
			fr.i.rawWrite(c, wrap(num(fr, a[1])))
			return nil
		}
		ext["sync/atomic.Add"+w.suffix] = func(fr *frame, a []value) value {
			c := cellOf(fr, a[0])
			if t := fr.i.threads; t != nil {
				t.syncPoint(fr.i, "atomic.Store")
				t.acquire(fr.i, c)
				t.release(fr.i, c)
			}
			nv := wrap(num(fr, *c) + num(fr, a[1]))
			fr.i.rawWrite(c, nv)
			return nv
		}
		ext["sync/atomic.Swap"+w.suffix] = func(fr *frame, a []value) value {
			c := cellOf(fr, a[0])
			if t := fr.i.threads; t != nil {
				t.syncPoint(fr.i, "atomic.Store")
				t.acquire(fr.i, c)
				t.release(fr.i, c)
			}
			old := num(fr, *c)
			fr.i.rawWrite(c, wrap(num(fr, a[1])))
			return old
		}
		ext["sync/atomic.CompareAndSwap"+w.suffix] = func(fr *frame, a []value) value {
			c := cellOf(fr, a[0])
			if t := fr.i.threads; t != nil {
				t.syncPoint(fr.i, "atomic.Store")
				t.acquire(fr.i, c)
				t.release(fr.i, c)
			}
			if num(fr, *c) != num(fr, a[1]) {
				return false
			}
			fr.i.rawWrite(c, wrap(num(fr, a[2])))
			return true
		}
	}
	ext["time.Sleep"] = func(fr *frame, a []value) value { return nil }
	ext["(*sync/atomic.Pointer[T]).Load"] = func(fr *frame, a []value) value { return fr.i.atomicLoad(a[0].(*value)) }
	ext["(*sync/atomic.Pointer[T]).Store"] = func(fr *frame, a []value) value {
		fr.i.atomicStore(a[0].(*value), a[1])
		return nil
	}

	// ---- regexp (native, concrete only) --------------------------------------------------------
	ext["regexp.MustCompile"] = func(fr *frame, a []value) value {
		cell := new(value)
		*cell = &native{regexp.MustCompile(fr.i.cstr(a[0], "regexp.MustCompile"))}
		return cell
	}
	ext["(*regexp.Regexp).MatchString"] = func(fr *frame, a []value) value {
		re := (*a[0].(*value)).(*native).v.(*regexp.Regexp)
		return re.MatchString(fr.i.cstr(a[1], "Regexp.MatchString"))
	}

	// ---- net/textproto, net/http helpers ---------------------------------------------------------
	ext["net/textproto.CanonicalMIMEHeaderKey"] = func(fr *frame, a []value) value {
		i := fr.i
		if s, ok := a[0].(string); ok {
			return textproto.CanonicalMIMEHeaderKey(s)
		}
		// symbolic name: invalid field bytes => unchanged; otherwise upper-case the first letter and every letter
		// after '-', lower-case the rest (the documented canonical form), as one term per byte
		bs := strBytes(a[0])
		ts := i.ts
		in := func(b *Term, lo, hi byte) *Term {
			return ts.And(ts.Cmp(OpBVUle, ts.Const(uint64(lo), 8), b), ts.Cmp(OpBVUle, b, ts.Const(uint64(hi), 8)))
		}
		valid := ts.tt
		for _, v := range bs {
			b := i.toTerm(v, 8)
			ok := ts.Or(ts.Or(in(b, 'a', 'z'), in(b, 'A', 'Z')), in(b, '0', '9'))
			for _, c := range []byte("!#$%&'*+-.^_`|~") {
				ok = ts.Or(ok, ts.Eq(b, ts.Const(uint64(c), 8)))
			}
			valid = ts.And(valid, ok)
		}
		if !i.decide(valid) {
			return a[0]
		}
		out := make([]value, len(bs))
		upper := ts.tt
		for k, v := range bs {
			b := i.toTerm(v, 8)
			up := ts.Ite(in(b, 'a', 'z'), ts.BV(OpBVSub, b, ts.Const(32, 8)), b)
			lo := ts.Ite(in(b, 'A', 'Z'), ts.BV(OpBVAdd, b, ts.Const(32, 8)), b)
			c := ts.Ite(upper, up, lo)
			out[k] = fromTerm(c, false)
			upper = ts.Eq(c, ts.Const('-', 8))
		}
		return mkStr(out)
	}
	ext["strconv.Itoa"] = func(fr *frame, a []value) value {
		return strconv.Itoa(fr.i.cint(a[0], "Itoa"))
	}
	ext["strconv.AppendInt"] = func(fr *frame, a []value) value {
		i := fr.i
		v, ok := a[1].(int64)
		if !ok {
			// symbolic value: hexadecimal of a value below 256 (hexEscapeNonASCII)
			t := a[1].(*Term)
			if i.cint(a[2], "base") != 16 {
				i.unsupported("strconv.AppendInt of a symbolic value in base != 16")
			}
			if i.decide(i.ts.Cmp(OpBVUle, i.ts.Const(256, 64), t)) {
				i.unsupported("strconv.AppendInt of a symbolic value >= 256")
			}
			hex := func(n *Term) value { // n: 8-bit nibble value
				lt10 := i.ts.Cmp(OpBVUlt, n, i.ts.Const(10, 8))
				return fromTerm(i.ts.Ite(lt10, i.ts.BV(OpBVAdd, n, i.ts.Const('0', 8)), i.ts.BV(OpBVAdd, n, i.ts.Const('a'-10, 8))), false)
			}
			b8 := i.ts.Extract(t, 7, 0)
			hi := i.ts.BV(OpBVLshr, b8, i.ts.Const(4, 8))
			lo := i.ts.BV(OpBVAnd, b8, i.ts.Const(15, 8))
			var digits []value
			if i.decide(i.ts.Cmp(OpBVUle, i.ts.Const(16, 64), t)) {
				digits = []value{hex(hi), hex(lo)}
			} else {
				digits = []value{hex(lo)}
			}
			return i.appendSlice(a[0].([]value), digits, types.NewSlice(types.Typ[types.Byte]))
		}
		s := strconv.FormatInt(v, i.cint(a[2], "base"))
		return i.appendSlice(a[0].([]value), strBytes(s), types.NewSlice(types.Typ[types.Byte]))
	}
	ext["runtime.Callers"] = func(fr *frame, a []value) value { return int64(0) }
	ext["runtime.KeepAlive"] = func(fr *frame, a []value) value { return nil }
	ext["log.Printf"] = func(fr *frame, a []value) value { return nil }
	ext["log.Println"] = func(fr *frame, a []value) value { return nil }
}

// ---------------------------------------------------------------------------------------------

func (i *Interp) freshVarNamed(witnessName, smt string, w int) *Term {
	t := i.ts.Var(smt, w)
	i.ps.inputs = append(i.ps.inputs, inputVar{term: t, name: witnessName})
	return t
}

func (i *Interp) freshBytes(name string, n int) []value {
	if _, dup := i.ps.strLens[name]; dup {
		i.unsupported("duplicate sym string %q", name)
	}
	i.ps.strLens[name] = n
	bs := make([]value, n)
	for k := 0; k < n; k++ {
		bs[k] = i.freshVar(fmt.Sprintf("s_%s_%d", smtName(name), k), 8, name, k)
	}
	return bs
}

func (i *Interp) assume(c *Term) {
	c = i.simp(c)
	if c.IsTrue() {
		return
	}
	if c.IsFalse() {
		panic(pathEnd{kind: "assume"})
	}
	if i.ps.noDecide {
		i.unsupported("symbolic Assume during setup")
	}
	i.ps.assumes++
	r := i.feasible(c)
	if r == Unsat {
		panic(pathEnd{kind: "assume"})
	}
	if r == Unknown {
		i.ps.inconcl = append(i.ps.inconcl, "solver unknown on assume at "+i.where())
	}
	i.assertPC(c)
}

// assert checks the property on the current path: a feasible negation is a violation.
func (i *Interp) assert(cv value, msgv value) {
	msg, _ := msgv.(string)
	switch c := cv.(type) {
	case bool:
		if c {
			return
		}
		if i.ps.noDecide {
			i.unsupported("assert failed during setup: %s", msg)
		}
		if i.solver.Check() == Sat {
			i.ps.violations = append(i.ps.violations, Violation{Kind: "assert", Msg: msg, Pos: i.where(), Detail: i.allocDetail(), Witness: i.witness(i.job)})
		} else {
			i.ps.inconcl = append(i.ps.inconcl, "assert false on path without model: "+msg)
		}
		panic(pathEnd{kind: "stop"})
	case *Term:
		c = i.simp(c)
		if c.IsTrue() {
			return
		}
		neg := i.ts.Not(c)
		i.solver.Push()
		i.solver.Assert(neg)
		r := i.solver.Check()
		if r == Sat {
			i.ps.violations = append(i.ps.violations, Violation{Kind: "assert", Msg: msg, Pos: i.where(), Detail: i.allocDetail(), Witness: i.witness(i.job)})
		} else if r == Unknown {
			i.ps.inconcl = append(i.ps.inconcl, "solver unknown on assertion: "+msg)
		}
		i.solver.Pop()
		if c.IsFalse() {
			panic(pathEnd{kind: "stop"})
		}
		if r == Sat {
			// continue on the part of the path where the assertion holds (if any)
			if i.solver.CheckWith(c) != Sat {
				panic(pathEnd{kind: "stop"})
			}
		}
		i.assertPC(c)
	}
}

// allocDetail lists the distinct allocation sites recorded on this path (empty when allocation tracking is off).
func (i *Interp) allocDetail() string {
	if !i.allocTrack || len(i.allocLog) == 0 {
		return ""
	}
	seen := map[string]bool{}
	var out []string
	for _, s := range i.allocLog {
		if !seen[s] {
			seen[s] = true
			out = append(out, s)
		}
	}
	sort.Strings(out)
	return strings.Join(out, "; ")
}
