package main

// Symbolic interpreter over go/ssa (structure after x/tools/go/ssa/interp).

import (
	"fmt"
	"go/token"
	"go/types"
	"os"
	"runtime"
	"strings"

	"golang.org/x/tools/go/ssa"
)

type continuation int

const (
	kNext continuation = iota
	kReturn
	kJump
)

// targetPanic is a panic of the program under test.
type targetPanic struct {
	v value
}

// pathEnd aborts the current path (not a target panic).
type pathEnd struct {
	kind string // "assume", "unsupported", "budget", "stop"
	msg  string
}

type undoEntry struct {
	addr *value
	old  value
	fn   func()
}

type deferred struct {
	fn    value
	args  []value
	instr *ssa.Defer
	tail  *deferred
}

type frame struct {
	i                *Interp
	caller           *frame
	fn               *ssa.Function
	block, prevBlock *ssa.BasicBlock
	env              []value
	idx              map[ssa.Value]int
	locals           []value
	defers           *deferred
	result           value
	panicking        bool
	panic            interface{}
	phitemps         []value
}

type fnInfo struct {
	idx  map[ssa.Value]int
	n    int
	pool [][]value
}

// Interp is one interpreter instance (one per worker; not goroutine safe).
type Interp struct {
	prog               *ssa.Program
	globals            map[*ssa.Global]*value
	globalReady        map[*ssa.Global]bool
	initPkgs           map[*ssa.Package]bool
	runtimeErrorString types.Type
	fninfo             map[*ssa.Function]*fnInfo
	ts                 *TermStore
	solver             *Solver
	ps                 *PathState
	undo               []undoEntry
	frozen             map[*value]bool
	frozenHits         []string
	allocEvents        int
	allocLog           []string
	allocTrack         bool
	trace              bool
	steps              int64
	maxSteps           int64
	depth              int
	extCache           map[*ssa.Function]externalFn
	extMiss            map[*ssa.Function]bool
	funcsRun           map[*ssa.Function]bool
	typeByName         map[string]types.Type
	threads            *threadState
	maxDecisions       int
	job                *Job
	curPosTok          token.Pos
	syncTrace          *[]syncEv
	poolChoice         bool
	poolSeq            int
	svCache            map[*Term]*Term
	satCache           map[*Term]*bitset
	useDomains         bool
	domQueries         int
	crossCheck         int
}

func (i *Interp) unsupported(format string, args ...any) {
	panic(pathEnd{kind: "unsupported", msg: fmt.Sprintf(format, args...)})
}

// rtPanic raises a Go run-time error in the target program.
func (i *Interp) rtPanic(msg string) {
	panic(targetPanic{iface{t: i.runtimeErrorString, v: msg}})
}

// write stores v into a cell, logging the old value for rollback and checking frozen cells.
func (i *Interp) write(addr *value, v value) {
	if addr == nil {
		i.rtPanic("invalid memory address or nil pointer dereference")
	}
	if i.frozen != nil && i.frozen[addr] {
		if !sameValue(*addr, v) {
			i.frozenHits = append(i.frozenHits, fmt.Sprintf("store to frozen cell: %s -> %s (%s)", toString(*addr), toString(v), i.where()))
		}
	}
	if i.threads != nil {
		i.threads.access(i, addr, true)
	}
	i.undo = append(i.undo, undoEntry{addr: addr, old: *addr})
	*addr = v
}

func (i *Interp) read(addr *value) value {
	if addr == nil {
		i.rtPanic("invalid memory address or nil pointer dereference")
	}
	if i.threads != nil {
		i.threads.access(i, addr, false)
	}
	return *addr
}

func (i *Interp) rollback(mark int) {
	for k := len(i.undo) - 1; k >= mark; k-- {
		e := i.undo[k]
		if e.fn != nil {
			e.fn()
		} else {
			*e.addr = e.old
		}
	}
	i.undo = i.undo[:mark]
}

func sameValue(a, b value) bool {
	switch x := a.(type) {
	case bool, int64, float64, string, *value, *Term, *omap, *ssa.Function, *closure, *native, *sstr:
		return a == b
	case iface:
		y, ok := b.(iface)
		if !ok {
			return false
		}
		if x.t == nil || y.t == nil {
			return x.t == nil && y.t == nil
		}
		return types.Identical(x.t, y.t) && sameValue(x.v, y.v)
	case []value:
		y, ok := b.([]value)
		if !ok || len(x) != len(y) || cap(x) != cap(y) {
			return false
		}
		if len(x) == 0 {
			return (x == nil) == (y == nil)
		}
		return &x[0] == &y[0]
	case structure:
		y, ok := b.(structure)
		if !ok || len(x) != len(y) {
			return false
		}
		for k := range x {
			if !sameValue(x[k], y[k]) {
				return false
			}
		}
		return true
	case array:
		y, ok := b.(array)
		if !ok || len(x) != len(y) {
			return false
		}
		for k := range x {
			if !sameValue(x[k], y[k]) {
				return false
			}
		}
		return true
	}
	return false
}

// load returns the value of type T in *addr (aggregates are copied).
func (i *Interp) load(T types.Type, addr *value) value {
	if addr == nil {
		i.rtPanic("invalid memory address or nil pointer dereference")
	}
	switch T := T.Underlying().(type) {
	case *types.Struct:
		v := (*addr).(structure)
		a := make(structure, len(v))
		for k := range a {
			a[k] = i.load(T.Field(k).Type(), &v[k])
		}
		return a
	case *types.Array:
		v := (*addr).(array)
		a := make(array, len(v))
		for k := range a {
			a[k] = i.load(T.Elem(), &v[k])
		}
		return a
	default:
		return i.read(addr)
	}
}

// store stores v of type T into *addr (aggregates element-wise so interior pointers stay valid).
func (i *Interp) store(T types.Type, addr *value, v value) {
	if addr == nil {
		i.rtPanic("invalid memory address or nil pointer dereference")
	}
	switch T := T.Underlying().(type) {
	case *types.Struct:
		lhs := (*addr).(structure)
		rhs := v.(structure)
		for k := range lhs {
			i.store(T.Field(k).Type(), &lhs[k], rhs[k])
		}
	case *types.Array:
		lhs := (*addr).(array)
		rhs := v.(array)
		for k := range lhs {
			i.store(T.Elem(), &lhs[k], rhs[k])
		}
	default:
		i.write(addr, v)
	}
}

func (i *Interp) where() string {
	return i.posString()
}

func (i *Interp) info(fn *ssa.Function) *fnInfo {
	if fi, ok := i.fninfo[fn]; ok {
		return fi
	}
	fi := &fnInfo{idx: map[ssa.Value]int{}}
	add := func(v ssa.Value) {
		fi.idx[v] = fi.n
		fi.n++
	}
	for _, p := range fn.Params {
		add(p)
	}
	for _, fv := range fn.FreeVars {
		add(fv)
	}
	for _, l := range fn.Locals {
		add(l)
	}
	for _, b := range fn.Blocks {
		for _, in := range b.Instrs {
			if v, ok := in.(ssa.Value); ok {
				if _, dup := fi.idx[v]; !dup {
					add(v)
				}
			}
		}
	}
	i.fninfo[fn] = fi
	return fi
}

func (fr *frame) set(k ssa.Value, v value) {
	fr.env[fr.idx[k]] = v
}

func (fr *frame) get(key ssa.Value) value {
	switch key := key.(type) {
	case nil:
		return nil
	case *ssa.Function, *ssa.Builtin:
		return key
	case *ssa.Const:
		return constValue(key)
	case *ssa.Global:
		return fr.i.globalAddr(key)
	}
	if ix, ok := fr.idx[key]; ok {
		v := fr.env[ix]
		if v == nil {
			panic(fmt.Sprintf("get: unset value %s in %s", key.Name(), fr.fn))
		}
		return v
	}
	panic(fmt.Sprintf("get: no value for %T: %v in %s", key, key.Name(), fr.fn))
}

func constValue(c *ssa.Const) value {
	if c.Value == nil {
		return zero(c.Type())
	}
	if t, ok := c.Type().Underlying().(*types.Basic); ok {
		info := t.Info()
		switch {
		case info&types.IsBoolean != 0:
			return c.Value.String() == "true"
		case info&types.IsInteger != 0:
			w, signed, _ := intInfo(t)
			if signed {
				return norm(c.Int64(), w, true)
			}
			return norm(int64(c.Uint64()), w, false)
		case info&types.IsFloat != 0:
			return c.Float64()
		case info&types.IsString != 0:
			if c.Value.Kind().String() == "String" {
				return constStringVal(c)
			}
			return string(rune(c.Int64()))
		case info&types.IsComplex != 0:
			return c.Complex128()
		}
	}
	panic(fmt.Sprintf("constValue: %s", c))
}

func (fr *frame) runDefer(d *deferred) {
	var ok bool
	defer func() {
		if !ok {
			r := recover()
			if pe, isEnd := r.(pathEnd); isEnd {
				panic(pe)
			}
			if _, isT := r.(targetPanic); !isT {
				panic(r) // engine bug or engine control flow: propagate
			}
			fr.panicking = true
			fr.panic = r
		}
	}()
	fr.i.call(fr, d.instr.Pos(), d.fn, d.args)
	ok = true
}

func (fr *frame) runDefers() {
	for d := fr.defers; d != nil; d = d.tail {
		fr.runDefer(d)
	}
	fr.defers = nil
	if fr.panicking {
		panic(fr.panic)
	}
}

func (i *Interp) lookupMethod(typ types.Type, meth *types.Func) *ssa.Function {
	return i.prog.LookupMethod(typ, meth.Pkg(), meth.Name())
}

func (i *Interp) asIndex(v value, what string) int {
	switch x := v.(type) {
	case int64:
		return int(x)
	case *Term:
		return int(sext(uint64(i.concretize(x)), x.w))
	}
	panic(fmt.Sprintf("asIndex(%s): %T", what, v))
}

func (i *Interp) visitInstr(fr *frame, instr ssa.Instruction) continuation {
	i.steps++
	if i.steps > i.maxSteps {
		panic(pathEnd{kind: "budget", msg: "instruction budget exceeded"})
	}
	switch instr := instr.(type) {
	case *ssa.DebugRef:

	case *ssa.UnOp:
		fr.set(instr, i.unop(instr, fr.get(instr.X)))

	case *ssa.BinOp:
		fr.set(instr, i.binop(instr.Op, instr.X.Type(), instr.Y.Type(), fr.get(instr.X), fr.get(instr.Y)))

	case *ssa.Call:
		fn, args := i.prepareCall(fr, &instr.Call)
		fr.set(instr, i.call(fr, instr.Pos(), fn, args))

	case *ssa.ChangeInterface:
		fr.set(instr, fr.get(instr.X))

	case *ssa.ChangeType:
		fr.set(instr, fr.get(instr.X))

	case *ssa.Convert:
		fr.set(instr, i.conv(instr.Type(), instr.X.Type(), fr.get(instr.X)))

	case *ssa.SliceToArrayPointer:
		i.unsupported("SliceToArrayPointer")

	case *ssa.MakeInterface:
		if i.allocTrack && !pointerShaped(instr.X.Type()) {
			i.allocEvent("MakeInterface of " + typeString(instr.X.Type()))
		}
		fr.set(instr, iface{t: instr.X.Type(), v: fr.get(instr.X)})

	case *ssa.Extract:
		fr.set(instr, fr.get(instr.Tuple).(tuple)[instr.Index])

	case *ssa.Slice:
		fr.set(instr, i.slice(instr, fr.get(instr.X), fr.get(instr.Low), fr.get(instr.High), fr.get(instr.Max)))

	case *ssa.Return:
		switch len(instr.Results) {
		case 0:
		case 1:
			fr.result = fr.get(instr.Results[0])
		default:
			res := make([]value, 0, len(instr.Results))
			for _, r := range instr.Results {
				res = append(res, fr.get(r))
			}
			fr.result = tuple(res)
		}
		fr.block = nil
		return kReturn

	case *ssa.RunDefers:
		fr.runDefers()

	case *ssa.Panic:
		pv := fr.get(instr.X)
		if f, ok := pv.(iface); ok && f.t == nil {
			// Go >= 1.21: panic(nil) raises *runtime.PanicNilError
			cell := new(value)
			*cell = zero(i.namedType("runtime", "PanicNilError"))
			pv = iface{t: types.NewPointer(i.namedType("runtime", "PanicNilError")), v: cell}
		}
		panic(targetPanic{pv})

	case *ssa.Send:
		i.unsupported("channel send")

	case *ssa.Store:
		i.store(deref(instr.Addr.Type()), fr.get(instr.Addr).(*value), fr.get(instr.Val))

	case *ssa.If:
		succ := 1
		c := fr.get(instr.Cond)
		var b bool
		switch c := c.(type) {
		case bool:
			b = c
		case *Term:
			b = i.decide(c)
		default:
			panic(fmt.Sprintf("If on %T", c))
		}
		if b {
			succ = 0
		}
		fr.prevBlock, fr.block = fr.block, fr.block.Succs[succ]
		return kJump

	case *ssa.Jump:
		fr.prevBlock, fr.block = fr.block, fr.block.Succs[0]
		return kJump

	case *ssa.Defer:
		fn, args := i.prepareCall(fr, &instr.Call)
		defers := &fr.defers
		if instr.DeferStack != nil {
			if into := fr.get(instr.DeferStack); into != nil {
				defers = into.(**deferred)
			}
		}
		*defers = &deferred{fn: fn, args: args, instr: instr, tail: *defers}

	case *ssa.Go:
		fn, args := i.prepareCall(fr, &instr.Call)
		i.goStmt(fr, instr, fn, args)

	case *ssa.MakeChan:
		i.unsupported("MakeChan")

	case *ssa.Alloc:
		var addr *value
		if instr.Heap {
			addr = new(value)
			fr.set(instr, addr)
			if i.allocTrack && !strings.Contains(instr.Comment, "varargs") {
				i.allocEvent("new " + typeString(deref(instr.Type())) + " (" + instr.Comment + ")")
			}
			*addr = zero(deref(instr.Type()))
		} else {
			addr = fr.env[fr.idx[instr]].(*value)
			*addr = zero(deref(instr.Type()))
		}

	case *ssa.MakeSlice:
		c := i.asIndex(fr.get(instr.Cap), "cap")
		l := i.asIndex(fr.get(instr.Len), "len")
		if l < 0 || c < l {
			i.rtPanic("makeslice: len out of range")
		}
		if i.allocTrack {
			i.allocEvent("make " + typeString(instr.Type()))
		}
		sl := make([]value, c)
		tElt := instr.Type().Underlying().(*types.Slice).Elem()
		for k := range sl {
			sl[k] = zero(tElt)
		}
		fr.set(instr, sl[:l])

	case *ssa.MakeMap:
		if i.allocTrack {
			i.allocEvent("make " + typeString(instr.Type()))
		}
		fr.set(instr, newOmap(instr.Type().Underlying().(*types.Map).Key()))

	case *ssa.Range:
		fr.set(instr, i.rangeIter(fr.get(instr.X), instr.X.Type()))

	case *ssa.Next:
		fr.set(instr, fr.get(instr.Iter).(iterator).next(i))

	case *ssa.FieldAddr:
		p := fr.get(instr.X).(*value)
		if p == nil {
			i.rtPanic("invalid memory address or nil pointer dereference")
		}
		fr.set(instr, &(*p).(structure)[instr.Field])

	case *ssa.Field:
		fr.set(instr, copyVal(fr.get(instr.X).(structure)[instr.Field]))

	case *ssa.IndexAddr:
		x := fr.get(instr.X)
		idx := fr.get(instr.Index)
		switch x := x.(type) {
		case []value:
			k := i.boundedIndex(idx, len(x))
			fr.set(instr, &x[k])
		case *value:
			if x == nil {
				i.rtPanic("invalid memory address or nil pointer dereference")
			}
			a := (*x).(array)
			k := i.boundedIndex(idx, len(a))
			fr.set(instr, &a[k])
		default:
			panic(fmt.Sprintf("unexpected x type in IndexAddr: %T", x))
		}

	case *ssa.Index:
		x := fr.get(instr.X)
		idx := fr.get(instr.Index)
		switch x := x.(type) {
		case array:
			fr.set(instr, copyVal(x[i.boundedIndex(idx, len(x))]))
		case string:
			fr.set(instr, int64(x[i.boundedIndex(idx, len(x))]))
		case *sstr:
			fr.set(instr, x.b[i.boundedIndex(idx, len(x.b))])
		default:
			panic(fmt.Sprintf("unexpected x type in Index: %T", x))
		}

	case *ssa.Lookup:
		fr.set(instr, i.lookup(instr, fr.get(instr.X), fr.get(instr.Index)))

	case *ssa.MapUpdate:
		m := fr.get(instr.Map).(*omap)
		if m == nil {
			panic(targetPanic{iface{t: i.runtimeErrorString, v: "assignment to entry in nil map"}})
		}
		i.mapInsert(m, fr.get(instr.Key), fr.get(instr.Value))

	case *ssa.TypeAssert:
		fr.set(instr, i.typeAssert(instr, fr.get(instr.X).(iface)))

	case *ssa.MakeClosure:
		var bindings []value
		for _, binding := range instr.Bindings {
			bindings = append(bindings, fr.get(binding))
		}
		if i.allocTrack && len(bindings) > 0 {
			i.allocEvent("closure " + instr.Fn.Name())
		}
		fr.set(instr, &closure{instr.Fn.(*ssa.Function), bindings})

	case *ssa.Phi:
		panic("unreachable: phi")

	case *ssa.Select:
		i.unsupported("select")

	default:
		panic(fmt.Sprintf("unexpected instruction: %T", instr))
	}
	return kNext
}

func pointerShaped(t types.Type) bool {
	switch t.Underlying().(type) {
	case *types.Pointer, *types.Signature, *types.Map, *types.Chan:
		return true
	}
	if b, ok := t.Underlying().(*types.Basic); ok && b.Kind() == types.UnsafePointer {
		return true
	}
	return false
}

func (i *Interp) allocEvent(what string) {
	i.allocEvents++
	if len(i.allocLog) < 16 {
		i.allocLog = append(i.allocLog, what+" at "+i.where())
	}
}

// boundedIndex returns a concrete in-range index, raising the Go run-time panic when out of range.
func (i *Interp) boundedIndex(idx value, n int) int {
	switch x := idx.(type) {
	case int64:
		if x < 0 || int(x) >= n {
			i.rtPanic(fmt.Sprintf("index out of range [%d] with length %d", x, n))
		}
		return int(x)
	case *Term:
		// in-range?
		inRange := i.ts.Cmp(OpBVUlt, i.ts.ZeroExt(x, 64), i.ts.Const(uint64(n), 64))
		if x.w == 64 {
			inRange = i.ts.Cmp(OpBVUlt, x, i.ts.Const(uint64(n), 64))
		}
		if !i.decide(inRange) {
			i.rtPanic("index out of range (symbolic index)")
		}
		return int(i.concretize(x))
	}
	panic(fmt.Sprintf("index of type %T", idx))
}

func (i *Interp) prepareCall(fr *frame, call *ssa.CallCommon) (fn value, args []value) {
	v := fr.get(call.Value)
	if call.Method == nil {
		fn = v
	} else {
		recv := v.(iface)
		if recv.t == nil {
			i.rtPanic("invalid memory address or nil pointer dereference (method call on nil interface)")
		}
		f := i.lookupMethod(recv.t, call.Method)
		if f == nil {
			panic(fmt.Sprintf("method set for dynamic type %v does not contain %s", recv.t, call.Method))
		}
		fn = f
		args = append(args, recv.v)
	}
	for _, arg := range call.Args {
		args = append(args, fr.get(arg))
	}
	return
}

func (i *Interp) call(caller *frame, callpos token.Pos, fn value, args []value) value {
	switch fn := fn.(type) {
	case *ssa.Function:
		if fn == nil {
			i.rtPanic("invalid memory address or nil pointer dereference (call of nil func)")
		}
		return i.callSSA(caller, callpos, fn, args, nil)
	case *closure:
		return i.callSSA(caller, callpos, fn.Fn, args, fn.Env)
	case *ssa.Builtin:
		return i.callBuiltin(caller, callpos, fn, args)
	}
	panic(fmt.Sprintf("cannot call %T", fn))
}

func (i *Interp) callSSA(caller *frame, callpos token.Pos, fn *ssa.Function, args []value, env []value) value {
	fr := &frame{i: i, caller: caller, fn: fn}
	if ext := i.external(fn); ext != nil {
		return ext(fr, args)
	}
	if fn.Blocks == nil {
		i.unsupported("no code for function %s", fn)
	}
	if fn.TypeParams().Len() > 0 && len(fn.TypeArgs()) == 0 {
		panic("generic function body executed: " + fn.String())
	}
	if i.depth > 400 {
		panic(pathEnd{kind: "budget", msg: "call depth exceeded in " + fn.String()})
	}
	i.depth++
	defer func() { i.depth-- }()
	if i.funcsRun != nil {
		i.funcsRun[fn] = true
	}
	fi := i.info(fn)
	fr.idx = fi.idx
	if np := len(fi.pool); np > 0 {
		fr.env = fi.pool[np-1]
		fi.pool = fi.pool[:np-1]
	} else {
		fr.env = make([]value, fi.n)
	}
	fr.block = fn.Blocks[0]
	fr.locals = make([]value, len(fn.Locals))
	for k, l := range fn.Locals {
		fr.locals[k] = zero(deref(l.Type()))
		fr.env[fi.idx[l]] = &fr.locals[k]
	}
	for k, p := range fn.Params {
		fr.env[fi.idx[p]] = args[k]
	}
	for k, fv := range fn.FreeVars {
		fr.env[fi.idx[fv]] = env[k]
	}
	for fr.block != nil {
		i.runFrame(fr)
	}
	clear(fr.env)
	fi.pool = append(fi.pool, fr.env)
	fr.env = nil
	return fr.result
}

func (i *Interp) runFrame(fr *frame) {
	defer func() {
		if fr.block == nil {
			return // normal return
		}
		r := recover()
		if r == nil {
			return
		}
		switch r.(type) {
		case targetPanic:
		case pathEnd:
			panic(r)
		default:
			// engine bug (or native runtime error in the engine): never treat as target behaviour
			if _, ok := r.(engineBug); ok {
				panic(r)
			}
			buf := make([]byte, 1<<14)
			buf = buf[:runtime.Stack(buf, false)]
			panic(engineBug{fmt.Sprintf("%v\nin %s at %s\n%s", r, fr.fn, i.where(), buf)})
		}
		fr.panicking = true
		fr.panic = r
		fr.runDefers()
		fr.block = fr.fn.Recover
		if fr.block == nil {
			// recovered, function without named results: return zero results
			fr.result = zeroResults(fr.fn)
		}
	}()

	for {
		nonPhis := i.executePhis(fr)
		for _, instr := range nonPhis {
			if i.trace {
				if v, ok := instr.(ssa.Value); ok {
					fmt.Fprintln(os.Stderr, "\t", fr.fn.Name(), v.Name(), "=", instr)
				} else {
					fmt.Fprintln(os.Stderr, "\t", fr.fn.Name(), instr)
				}
			}
			if p := instr.Pos(); p != token.NoPos {
				i.curPosTok = p
			}
			if i.visitInstr(fr, instr) == kReturn {
				return
			}
		}
	}
}

type engineBug struct{ msg string }

func zeroResults(fn *ssa.Function) value {
	res := fn.Signature.Results()
	switch res.Len() {
	case 0:
		return nil
	case 1:
		return zero(res.At(0).Type())
	}
	t := make(tuple, res.Len())
	for k := range t {
		t[k] = zero(res.At(k).Type())
	}
	return t
}

func (i *Interp) executePhis(fr *frame) []ssa.Instruction {
	firstNonPhi := -1
	for k, instr := range fr.block.Instrs {
		if _, ok := instr.(*ssa.Phi); !ok {
			firstNonPhi = k
			break
		}
	}
	nonPhis := fr.block.Instrs[firstNonPhi:]
	if firstNonPhi > 0 {
		phis := fr.block.Instrs[:firstNonPhi]
		predIndex := -1
		for k, p := range fr.block.Preds {
			if p == fr.prevBlock {
				predIndex = k
				break
			}
		}
		fr.phitemps = fr.phitemps[:0]
		for _, phi := range phis {
			phi := phi.(*ssa.Phi)
			fr.phitemps = append(fr.phitemps, fr.get(phi.Edges[predIndex]))
		}
		for k, phi := range phis {
			fr.set(phi.(*ssa.Phi), fr.phitemps[k])
		}
	}
	return nonPhis
}

func (i *Interp) doRecover(caller *frame) value {
	if caller != nil && !caller.panicking &&
		caller.caller != nil && caller.caller.panicking {
		caller.caller.panicking = false
		p := caller.caller.panic
		caller.caller.panic = nil
		switch p := p.(type) {
		case targetPanic:
			return p.v
		default:
			panic(fmt.Sprintf("unexpected panic type %T in target call to recover()", p))
		}
	}
	return iface{}
}

// posString renders the current source position lazily.
func (i *Interp) posString() string {
	if i.curPosTok == token.NoPos {
		return "?"
	}
	p := i.prog.Fset.Position(i.curPosTok)
	return fmt.Sprintf("%s:%d", shortFile(p.Filename), p.Line)
}

func shortFile(f string) string {
	if k := strings.LastIndex(f, "/"); k >= 0 {
		if j := strings.LastIndex(f[:k], "/"); j >= 0 {
			return f[j+1:]
		}
	}
	return f
}
