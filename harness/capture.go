package harness

import (
	"context"
	"log/slog"

	"verif/harness/sym"
)

// logRecord is one record handed to slog by the code under test.
type logRecord struct {
	level int
	msg   string
	keys  []string
	vals  []any
	seq   int // value of the shared event counter when the record was emitted
}

type logSink struct {
	recs []logRecord
	seq  int
}

func (s *logSink) get(r logRecord, key string) (any, bool) {
	for i, k := range r.keys {
		if k == key {
			return r.vals[i], true
		}
	}
	return nil, false
}

// captureHandler is a slog.Handler that records what it is given. Natively slog calls Handle; under the
// executor the slog front end is modelled and calls CaptureLog directly with the same information.
type captureHandler struct{ sink *logSink }

func (h captureHandler) Enabled(context.Context, slog.Level) bool { return true }
func (h captureHandler) WithAttrs([]slog.Attr) slog.Handler       { return h }
func (h captureHandler) WithGroup(string) slog.Handler            { return h }

func (h captureHandler) CaptureLog(level int, msg string, keys []string, vals []any) {
	sym.Atomic(func() {
		h.sink.seq++
		h.sink.recs = append(h.sink.recs, logRecord{level: level, msg: msg, keys: keys, vals: vals, seq: h.sink.seq})
	})
}

func flattenAttr(prefix string, a slog.Attr, keys *[]string, vals *[]any) {
	v := a.Value
	switch v.Kind() {
	case slog.KindGroup:
		for _, g := range v.Group() {
			flattenAttr(prefix+a.Key+".", g, keys, vals)
		}
		return
	case slog.KindString:
		*vals = append(*vals, v.String())
	case slog.KindInt64:
		*vals = append(*vals, int(v.Int64()))
	case slog.KindDuration:
		*vals = append(*vals, v.Duration())
	case slog.KindBool:
		*vals = append(*vals, v.Bool())
	default:
		*vals = append(*vals, v.Any())
	}
	*keys = append(*keys, prefix+a.Key)
}

func (h captureHandler) Handle(_ context.Context, r slog.Record) error {
	var keys []string
	var vals []any
	r.Attrs(func(a slog.Attr) bool {
		flattenAttr("", a, &keys, &vals)
		return true
	})
	h.CaptureLog(int(r.Level), r.Message, keys, vals)
	return nil
}
