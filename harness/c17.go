package harness

import (
	"github.com/tigerwill90/fox"
	"verif/harness/sym"
)

// refClean is the reference model R-clean: split on '/', resolve with a stack, join.
func refClean(p string) string {
	var segs []string
	trailing := false
	i := 0
	n := len(p)
	for i <= n {
		j := i
		for j < n && p[j] != '/' {
			j++
		}
		seg := p[i:j]
		last := j == n
		switch seg {
		case "":
			if last && n > 0 && i > 0 {
				trailing = true // input ended with '/'
			}
		case ".":
			if last {
				trailing = true
			}
		case "..":
			if len(segs) > 0 {
				segs = segs[:len(segs)-1]
			}
		default:
			segs = append(segs, seg)
		}
		i = j + 1
	}
	if len(segs) == 0 {
		return "/"
	}
	out := ""
	for _, s := range segs {
		out += "/" + s
	}
	if trailing {
		out += "/"
	}
	return out
}

// HarnessC17Clean: CleanPath(p) is canonical and idempotent for every p of n bytes.
func HarnessC17Clean() {
	n := sym.Param("n")
	p := sym.String("p", n)
	got := fox.CleanPath(p)
	want := refClean(p)
	sym.Assert(got == want, "CleanPath(p) == reference canonical form")
	sym.Assert(fox.CleanPath(got) == got, "CleanPath idempotent")
	if n > 1 && p[n-1] == '/' {
		sym.Cover("trailing-slash-in")
	}
}

// HarnessC17Long: inputs crossing the 128-byte stack buffer of CleanPath: a concrete filler with a
// symbolic window of w bytes at a chosen place.
func HarnessC17Long() {
	total := sym.Param("total")
	w := sym.Param("w")
	place := sym.Param("place") // 0 start, 1 middle, 2 end
	filler := sym.Param("filler")
	fill := func(n int) string {
		unit := "a/"
		switch filler {
		case 1:
			unit = "../" // lots of parent references
		case 2:
			unit = "b//" // needs rewriting from the start
		}
		out := ""
		for len(out) < n {
			out += unit
		}
		return out[:n]
	}
	win := sym.String("win", w)
	var p string
	rest := total - w
	switch place {
	case 0:
		p = win + fill(rest)
	case 1:
		p = fill(rest/2) + win + fill(rest-rest/2)
	default:
		p = fill(rest) + win
	}
	got := fox.CleanPath(p)
	sym.Assert(got == refClean(p), "CleanPath(p) == reference canonical form (long input)")
	sym.Assert(fox.CleanPath(got) == got, "CleanPath idempotent (long input)")
	if len(p) > 127 {
		sym.Cover("input longer than the stack buffer")
	}
}
