package harness

import (
	"github.com/tigerwill90/fox"
	"verif/harness/sym"
)

// refClean is the reference model R-clean: split on '/', resolve with a stack, join.
func refClean(p string) string {
	var segs []string
	trailing := false
	i := 0
	n := len(p)
	for i <= n {
		j := i
		for j < n && p[j] != '/' {
			j++
		}
		seg := p[i:j]
		last := j == n
		switch seg {
		case "":
			if last && n > 0 && i > 0 {
				trailing = true // input ended with '/'
			}
		case ".":
			if last {
				trailing = true
			}
		case "..":
			if len(segs) > 0 {
				segs = segs[:len(segs)-1]
			}
		default:
			segs = append(segs, seg)
		}
		i = j + 1
	}
	if len(segs) == 0 {
		return "/"
	}
	out := ""
	for _, s := range segs {
		out += "/" + s
	}
	if trailing {
		out += "/"
	}
	return out
}

// HarnessC17Clean: CleanPath(p) is canonical and idempotent for every p of n bytes.
func HarnessC17Clean() {
	n := sym.Param("n")
	p := sym.String("p", n)
	got := fox.CleanPath(p)
	want := refClean(p)
	sym.Assert(got == want, "CleanPath(p) == reference canonical form")
	sym.Assert(fox.CleanPath(got) == got, "CleanPath idempotent")
	if n > 1 && p[n-1] == '/' {
		sym.Cover("trailing-slash-in")
	}
}
