package harness

import (
	"net/http"
	"net/url"

	"github.com/tigerwill90/fox"
	"verif/harness/sym"
)

type c06State struct {
	p *probeRouter
}

func SetupC06Parked() any {
	set := corpusSet(sym.Param("set"))
	p := newProbeRouter(fox.WithRedirectTrailingSlash(true))
	if sym.ParamOr("deep", 0) == 1 {
		// a chain of 30 nested radix nodes, every prefix a route (the iterators switch to another traversal
		// stack strategy on deep trees)
		pat := "/"
		for k := 0; k < 30; k++ {
			pat += "d"
			mustHandle(p, "GET", pat)
		}
		return &c06State{p: p}
	}
	for i, rt := range set.Routes {
		mustHandle(p, methodOf(i), rt.Pattern)
	}
	// a method beyond the pre-instantiated verbs (its root is created and removed by writers)
	mustHandle(p, "PATCH", "/patched/{x}")
	return &c06State{p: p}
}

// allReads runs every read entry point once; none may wait for the writer lock.
func allReads(s *c06State, host, path, pattern string) {
	r := s.p.r
	for _, m := range []string{"GET", "POST", "DELETE", "OPTIONS"} {
		req := &http.Request{Method: m, Host: host, URL: &url.URL{Path: path}}
		s.p.serve(req)
		rte, cc, _ := r.Lookup(nil, req)
		if cc != nil {
			_ = rte
			_ = collectParams(cc)
			cl := cc.Clone()
			_ = cl.Pattern()
			cc.Close()
		}
		r.Reverse(m, host, path)
		r.Has(m, pattern)
		r.Route(m, pattern)
	}
	// the server-wide OPTIONS target
	s.p.serve(&http.Request{Method: "OPTIONS", Host: host, URL: &url.URL{Path: "*"}})
	_ = r.Len()
	_ = r.Stats()
	it := r.Iter()
	n := 0
	for range it.All() {
		n++
	}
	for range it.Methods() {
		n++
	}
	for range it.Prefix(it.Methods(), pattern) {
		n++
	}
	for range it.Routes(it.Methods(), pattern) {
		n++
	}
	for range it.Reverse(it.Methods(), host, path) {
		n++
	}
	_ = r.View(func(txn *fox.Txn) error {
		txn.Has("GET", pattern)
		txn.Route("GET", pattern)
		_ = txn.Len()
		txn.Reverse("GET", host, path)
		_, cc, _ := txn.Lookup(nil, &http.Request{Method: "GET", Host: host, URL: &url.URL{Path: path}})
		if cc != nil {
			cc.Close()
		}
		for range txn.Iter().All() {
			n++
		}
		return nil
	})
	ro := r.Txn(false)
	ro.Has("POST", pattern)
	_ = ro.Len()
	snap := ro.Snapshot()
	_ = snap.Len()
	ro.Commit()
	ro.Abort()
	sym.Cover("all read entry points completed while a writer was parked")
}

// HarnessC06Parked: every read entry point completes while a write transaction is held open at a given
// stage of its life; a second writer does block.
func HarnessC06Parked(st any) {
	s := st.(*c06State)
	stage := sym.Param("stage")
	lh, lp, ln := sym.Param("lh"), sym.Param("lp"), sym.Param("ln")
	host := sym.String("host", lh)
	path := "/" + sym.String("path", lp-1)
	pattern := sym.String("pattern", ln)
	r := s.p.r

	secondWriterBlocks := func() {
		blocked := sym.WouldBlock(func() { _, _ = r.Handle("GET", "/second/writer", noopHandler) })
		sym.Assert(blocked, "a second writer waits for the open write transaction")
	}
	if sym.ParamOr("trunc", 0) == 1 {
		// the tree being read was published by a transaction that truncated one method only
		if err := r.Updates(func(txn *fox.Txn) error { return txn.Truncate("POST") }); err != nil {
			panic(err)
		}
		sym.Cover("reads on a tree published by a partial truncate")
	}
	switch stage {
	case 0: // just opened
		txn := r.Txn(true)
		allReads(s, host, path, pattern)
		secondWriterBlocks()
		txn.Abort()
	case 1: // after uncommitted writes
		txn := r.Txn(true)
		_, _ = txn.Handle("GET", "/parked/{a}", noopHandler)
		_, _ = txn.Delete("GET", "/")
		_ = txn.Truncate("POST")
		allReads(s, host, path, pattern)
		secondWriterBlocks()
		txn.Abort()
	case 2: // inside Updates
		_ = r.Updates(func(txn *fox.Txn) error {
			_, _ = txn.Handle("GET", "/parked/{a}", noopHandler)
			allReads(s, host, path, pattern)
			secondWriterBlocks()
			return errInjected
		})
	case 3: // with a snapshot / iterator taken from the write transaction
		txn := r.Txn(true)
		_, _ = txn.Handle("GET", "/parked/{a}", noopHandler)
		snap := txn.Snapshot()
		it := txn.Iter()
		allReads(s, host, path, pattern)
		for range it.All() {
		}
		_ = snap.Len()
		secondWriterBlocks()
		txn.Abort()
	case 4: // readers that started on a tree which has been replaced since: context closers, iterators, read-only txns
		req := &http.Request{Method: "GET", Host: host, URL: &url.URL{Path: path}}
		_, cc, _ := r.Lookup(nil, req)
		it := r.Iter()
		ro := r.Txn(false)
		_, rcc, _ := ro.Lookup(nil, req)
		if _, err := r.Handle("GET", "/committed/meanwhile", noopHandler); err != nil {
			panic(err)
		}
		txn := r.Txn(true)
		_, _ = txn.Handle("GET", "/parked/{a}", noopHandler)
		if cc != nil {
			cl := cc.Clone()
			_ = cl.Pattern()
			cw := cc.CloneWith(cc.Writer(), req)
			cw.Close()
			cc.Close()
			sym.Cover("stale context closed while a writer was parked")
		}
		if rcc != nil {
			rcc.Close()
		}
		n := 0
		for range it.All() {
			n++
		}
		for range it.Prefix(it.Methods(), pattern) {
			n++
		}
		for range it.Routes(it.Methods(), pattern) {
			n++
		}
		for range it.Reverse(it.Methods(), host, path) {
			n++
		}
		ro.Has("GET", pattern)
		ro.Reverse("GET", host, path)
		for range ro.Iter().Reverse(ro.Iter().Methods(), host, path) {
			n++
		}
		ro.Abort()
		allReads(s, host, path, pattern)
		secondWriterBlocks()
		txn.Abort()
		if _, err := r.Delete("GET", "/committed/meanwhile"); err != nil {
			panic(err)
		}
	case 5: // writers wait only for other writers: a write completes while a reader is parked in the middle of its read
		writeNow := func(where string) {
			blocked := sym.WouldBlock(func() {
				if _, err := r.Handle("GET", "/written/meanwhile", noopHandler); err != nil {
					panic(err)
				}
				if _, err := r.Delete("GET", "/written/meanwhile"); err != nil {
					panic(err)
				}
			})
			sym.Assert(!blocked, "a writer does not wait for a reader ("+where+")")
		}
		it := r.Iter()
		for range it.Methods() {
			writeNow("inside Iter.Methods")
			break
		}
		for range it.All() {
			writeNow("inside Iter.All")
			break
		}
		for range it.Routes(it.Methods(), pattern) {
			writeNow("inside Iter.Routes")
			break
		}
		for range it.Prefix(it.Methods(), "/") {
			writeNow("inside Iter.Prefix")
			break
		}
		for range it.Reverse(it.Methods(), host, path) {
			writeNow("inside Iter.Reverse")
			break
		}
		_ = r.View(func(txn *fox.Txn) error {
			writeNow("inside View")
			for range txn.Iter().All() {
				writeNow("inside View, iterating")
				break
			}
			return nil
		})
		ro := r.Txn(false)
		snap := ro.Snapshot()
		writeNow("with an open read-only transaction and its snapshot")
		_ = snap.Len()
		ro.Abort()
		req := &http.Request{Method: "GET", Host: host, URL: &url.URL{Path: path}}
		_, cc, _ := r.Lookup(nil, req)
		writeNow("with an open Lookup context")
		if cc != nil {
			cc.Close()
		}
		s.p.inHandler = func(c fox.Context) {
			writeNow("inside a request handler")
			if rt := c.Route(); rt != nil {
				// the very route that is being served can be deleted (and registered again) meanwhile
				blocked := sym.WouldBlock(func() {
					if _, err := r.Delete(c.Method(), rt.Pattern()); err != nil {
						panic(err)
					}
					if _, err := r.Handle(c.Method(), rt.Pattern(), noopHandler); err != nil {
						panic(err)
					}
				})
				sym.Assert(!blocked, "a writer does not wait for the request that is being served by the route it deletes")
				sym.Cover("served route deleted inside its handler")
			}
		}
		s.p.serve(req)
		s.p.inHandler = nil
		sym.Cover("writes completed while readers were parked")
	}
}
