package harness

import (
	"net/http"
	"net/url"

	"verif/harness/sym"
)

func SetupC08Tsr() any { return SetupC01Lookup() }

// HarnessC08Tsr: Lookup recommends a trailing-slash action exactly when R-tsr does, for the
// highest-priority slash-adjusted route, with the parameters of the adjusted match.
func HarnessC08Tsr(st any) {
	s := st.(*lookupState)
	method := s.set.Routes[0].Method
	lh := sym.Param("lh")
	if lh > 0 && s.ref.method(method).hostTrie == nil {
		return
	}
	host := sym.String("host", lh)
	lp := sym.Param("lp")
	path := "/" + sym.String("path", lp-1)
	sym.Assume(!hasEmptySegment(path))
	if path == "/" {
		return // the statement only speaks about paths other than "/"
	}
	req := &http.Request{Method: method, Host: host, URL: &url.URL{Path: path}}
	// the same request twice on the recycled context: the second answer must not carry anything over
	r0, c0, t0 := s.r.Lookup(nil, req)
	var p0 []kv
	if c0 != nil {
		p0 = collectParams(c0)
		c0.Close()
	}
	rte, cc, tsr := s.r.Lookup(nil, req)
	defer func() {
		if cc != nil {
			cc.Close()
		}
	}()
	sym.Assert(r0 == rte && t0 == tsr, "the same request gives the same answer on a recycled context")
	if cc != nil && c0 != nil {
		sym.Assert(sameParams(p0, collectParams(cc)), "the same request gives the same parameters on a recycled context")
	}
	want := s.ref.lookup(method, host, path, true)
	if want.ambiguous {
		return
	}
	if want.route != nil && !want.tsr {
		return // direct match: C01's obligation
	}
	if want.route == nil {
		sym.Cover("no route even after slash adjustment")
		// (a) soundness
		sym.Assert(rte == nil, "(a) trailing-slash action recommended although no route matches the slash-adjusted path")
		return
	}
	sym.Cover("tsr expected")
	if want.viaHost {
		sym.Cover("tsr expected under a matching host")
	}
	// (b) completeness
	sym.Assert(rte != nil, "(b) a route matches the slash-adjusted path but no trailing-slash action is recommended")
	if rte == nil {
		return
	}
	sym.Assert(tsr, "tsr flag set for an indirect match")
	if !tsr {
		return
	}
	// (c) priority
	sym.Assert(rte.Pattern() == want.route.pattern, "(c) the recommended route is the highest-priority slash-adjusted route")
	if rte.Pattern() != want.route.pattern {
		return
	}
	got := collectParams(cc)
	sub, ok := substitute(rte.Pattern(), got)
	sym.Assert(ok, "tsr parameters are reported under the pattern's names in pattern order")
	if ok {
		h, _ := refStripHost(host)
		target := toggleSlash(path)
		if want.viaHost {
			target = h + target
		}
		sym.Assert(sub == target, "tsr parameters reproduce the slash-adjusted request")
	}
	if !want.infix {
		sym.Assert(sameParams(got, want.params), "tsr parameter values are those of the adjusted match")
	}
}
