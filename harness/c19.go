package harness

import (
	"errors"
	"net"
	"net/http"
	"net/url"

	"github.com/tigerwill90/fox"
	"verif/harness/sym"
)

type namedKey string
type structKey struct{ a, b int }
type ifaceKey struct{ v any }

var ptrTarget = 7

// annotation key catalogue: (key, valid as map key)
func annotationKey(i int) (key any, hashable bool, isNil bool) {
	switch i {
	case 0:
		return 1, true, false
	case 1:
		return "k", true, false
	case 2:
		return struct{}{}, true, false
	case 3:
		return namedKey("n"), true, false
	case 4:
		return &ptrTarget, true, false
	case 5:
		return structKey{1, 2}, true, false
	case 6:
		return []int{1}, false, false
	case 7:
		return map[string]int{}, false, false
	case 8:
		return func() {}, false, false
	case 9:
		return ifaceKey{v: []int{1}}, false, false // comparable type, unhashable dynamic value
	case 10:
		return [1]any{map[string]int{}}, false, false
	case 11:
		return ifaceKey{v: 3}, true, false
	}
	return nil, true, true
}

const nAnnotationKeys = 13

var resolverA = fixedResolver("198.51.100.1")
var resolverB = fixedResolver("198.51.100.2")

func resolverChoice(i int) fox.ClientIPResolver {
	switch i {
	case 0:
		return resolverA
	case 1:
		return resolverB
	}
	return nil
}

type optModel struct {
	ignore, redirect bool
	resolver         int // 0 A, 1 B, 2 none
}

func passMW(next fox.HandlerFunc) fox.HandlerFunc { return next }

// HarnessC19Options: a route carries exactly the folded option state; invalid options are rejected
// with the documented sentinel and never panic.
func HarnessC19Options() {
	g := sym.Param("g")
	r := sym.Param("r")
	router := optModel{resolver: 2}
	var gopts []fox.GlobalOption
	globalInvalid := false
	for i := 0; i < g; i++ {
		tag := string(rune('0' + i))
		switch sym.Choose("gk"+tag, 4) {
		case 0:
			b := sym.Bool("gb" + tag)
			gopts = append(gopts, fox.WithIgnoreTrailingSlash(b))
			router.ignore = b
			if b {
				router.redirect = false
			}
		case 1:
			b := sym.Bool("gb" + tag)
			gopts = append(gopts, fox.WithRedirectTrailingSlash(b))
			router.redirect = b
			if b {
				router.ignore = false
			}
		case 2:
			w := sym.Choose("gr"+tag, 3)
			gopts = append(gopts, fox.WithClientIPResolver(resolverChoice(w)))
			if w != 2 {
				router.resolver = w // a nil resolver at router level changes nothing
			}
		case 3:
			if sym.Bool("gnil" + tag) {
				gopts = append(gopts, fox.WithMiddleware(nil))
				globalInvalid = true
			} else {
				gopts = append(gopts, fox.WithMiddleware(passMW))
			}
		}
	}
	f, err := fox.New(gopts...)
	if globalInvalid {
		sym.Cover("invalid global option rejected")
		sym.Assert(f == nil && errors.Is(err, fox.ErrInvalidConfig), "nil global middleware is ErrInvalidConfig")
		return
	}
	sym.Assert(err == nil && f != nil, "valid global options are accepted")
	if err != nil {
		return
	}
	// a route created before further route options sees the router-wide configuration
	plain, err := f.Handle("GET", "/plain", noopHandler)
	sym.Assert(err == nil, "route registered")
	if err != nil {
		return
	}
	check := func(rte *fox.Route, m optModel, who string) {
		sym.Assert(rte.IgnoreTrailingSlashEnabled() == m.ignore, who+": ignore-trailing-slash mode")
		sym.Assert(rte.RedirectTrailingSlashEnabled() == m.redirect, who+": redirect-trailing-slash mode")
		sym.Assert(!(rte.IgnoreTrailingSlashEnabled() && rte.RedirectTrailingSlashEnabled()), who+": enabling one trailing-slash mode disables the other")
		var want fox.ClientIPResolver
		if m.resolver != 2 {
			want = resolverChoice(m.resolver)
		}
		got := rte.ClientIPResolver()
		if want == nil {
			sym.Assert(got == nil, who+": no client IP resolver")
		} else {
			sym.Assert(got != nil, who+": client IP resolver present")
			if got != nil {
				ip, _ := got.ClientIP(nil)
				wip, _ := want.ClientIP(nil)
				sym.Assert(ip != nil && ip.String() == wip.String(), who+": the configured client IP resolver")
			}
		}
	}
	check(plain, router, "route without options")

	route := router
	var ropts []fox.RouteOption
	routeInvalid := 0 // 0 valid, 1 ErrInvalidConfig expected, 2 nil key (either, no panic)
	type ann struct {
		key any
		val int
	}
	var anns []ann
	var rtrace, rmws []int
	for j := 0; j < r; j++ {
		tag := string(rune('0' + j))
		switch sym.Choose("rk"+tag, 5) {
		case 0:
			b := sym.Bool("rb" + tag)
			ropts = append(ropts, fox.WithIgnoreTrailingSlash(b))
			route.ignore = b
			if b {
				route.redirect = false
			}
		case 1:
			b := sym.Bool("rb" + tag)
			ropts = append(ropts, fox.WithRedirectTrailingSlash(b))
			route.redirect = b
			if b {
				route.ignore = false
			}
		case 2:
			w := sym.Choose("rr"+tag, 3)
			ropts = append(ropts, fox.WithClientIPResolver(resolverChoice(w)))
			route.resolver = w // a nil per-route resolver means none
		case 3:
			if sym.Bool("rnil" + tag) {
				ropts = append(ropts, fox.WithMiddleware(nil))
				if routeInvalid == 0 {
					routeInvalid = 1
				}
			} else {
				id := j
				ropts = append(ropts, fox.WithMiddleware(func(next fox.HandlerFunc) fox.HandlerFunc {
					return func(c fox.Context) { rtrace = append(rtrace, id); next(c) }
				}))
				if routeInvalid == 0 {
					rmws = append(rmws, id)
				}
			}
		case 4:
			ki := sym.Choose("ak"+tag, nAnnotationKeys)
			key, hashable, isNil := annotationKey(ki)
			ropts = append(ropts, fox.WithAnnotation(key, 10+j))
			switch {
			case isNil:
				if routeInvalid == 0 {
					routeInvalid = 2
				}
			case !hashable:
				if routeInvalid == 0 {
					routeInvalid = 1
				}
			default:
				if routeInvalid == 0 {
					anns = append(anns, ann{key, 10 + j})
				}
			}
		}
	}
	via := sym.Choose("via", 3) // NewRoute, Handle, Update
	var rte *fox.Route
	switch via {
	case 0:
		rte, err = f.NewRoute("/opt/{x}", noopHandler, ropts...)
	case 1:
		rte, err = f.Handle("GET", "/opt/{x}", noopHandler, ropts...)
	case 2:
		rte, err = f.Update("GET", "/plain", noopHandler, ropts...)
	}
	switch routeInvalid {
	case 1:
		sym.Cover("invalid route option rejected")
		sym.Assert(rte == nil && errors.Is(err, fox.ErrInvalidConfig), "nil middleware / unusable annotation key is ErrInvalidConfig")
		return
	case 2:
		sym.Cover("nil annotation key did not panic")
		return // acceptance of a nil key is not specified; not panicking is (crash monitor)
	}
	sym.Assert(err == nil && rte != nil, "valid route options are accepted")
	if err != nil {
		return
	}
	sym.Cover("route options compared")
	check(rte, route, "route with options")
	// the route-specific middleware: exactly the ones given, in the order given
	tctx := fox.NewTestContextOnly(&nullWriter{h: http.Header{}}, &http.Request{Method: "GET", URL: &url.URL{Path: "/opt/1"}})
	rtrace = nil
	rte.HandleMiddleware(tctx)
	sym.Assert(sameInts(rtrace, rmws), "Route.HandleMiddleware runs exactly the route's own middleware, in the order given")
	if len(rmws) >= 2 {
		sym.Cover("two route middleware in order")
	}
	rtrace = nil
	rte.Handle(tctx)
	sym.Assert(len(rtrace) == 0, "Route.Handle runs the bare handler")
	for _, a := range anns {
		// the last value set for the key wins
		last := a.val
		for _, b := range anns {
			if b.key == a.key {
				last = b.val
			}
		}
		sym.Assert(rte.Annotation(a.key) == any(last), "Annotation returns the last value set for its key")
	}
	sym.Assert(rte.Annotation("never set") == nil, "Annotation of an unknown key is nil")
	// nil handlers are rejected on every creation path
	_, e1 := f.NewRoute("/nh", nil)
	_, e2 := f.Handle("GET", "/nh", nil)
	_, e3 := f.Update("GET", "/plain", nil)
	sym.Assert(errors.Is(e1, fox.ErrInvalidRoute), "NewRoute rejects a nil handler with ErrInvalidRoute")
	sym.Assert(errors.Is(e2, fox.ErrInvalidRoute), "Handle rejects a nil handler with ErrInvalidRoute")
	sym.Assert(errors.Is(e3, fox.ErrInvalidRoute), "Update rejects a nil handler with ErrInvalidRoute")
}

// HarnessC19ClientIP: Context.ClientIP uses the matched route's resolver inside route handlers
// (including an ignored trailing slash) and the router-wide one in every other handler.
func HarnessC19ClientIP() {
	kind := sym.Param("kind")
	var seen string
	var seenErr error
	h := func(c fox.Context) {
		ip, err := c.ClientIP()
		seenErr = err
		seen = ""
		if ip != nil {
			seen = ip.String()
		}
		c.Writer().WriteHeader(200)
	}
	routerHas := sym.Bool("routerHas")
	routeMode := sym.Choose("routeMode", 3) // 0 inherits, 1 own resolver, 2 explicitly none
	opts := []fox.GlobalOption{fox.WithNoRouteHandler(h), fox.WithNoMethodHandler(h), fox.WithOptionsHandler(h)}
	if routerHas {
		opts = append(opts, fox.WithClientIPResolver(resolverA))
	}
	// the redirect handler is internal: a middleware in its scope asks for the client IP
	opts = append(opts, fox.WithMiddlewareFor(fox.RedirectHandler, func(next fox.HandlerFunc) fox.HandlerFunc {
		return func(c fox.Context) {
			h(c)
		}
	}))
	f, err := fox.New(opts...)
	if err != nil {
		panic(err)
	}
	var ropts []fox.RouteOption
	ropts = append(ropts, fox.WithIgnoreTrailingSlash(true))
	switch routeMode {
	case 1:
		ropts = append(ropts, fox.WithClientIPResolver(resolverB))
	case 2:
		ropts = append(ropts, fox.WithClientIPResolver(nil))
	}
	if _, err := f.Handle("GET", "/r", h, ropts...); err != nil {
		panic(err)
	}
	if _, err := f.Handle("GET", "/t/", h, ropts...); err != nil {
		panic(err)
	}
	if _, err := f.Handle("GET", "/d/", h, append(append([]fox.RouteOption(nil), ropts[1:]...), fox.WithRedirectTrailingSlash(true))...); err != nil {
		panic(err)
	}
	req := c20Request(kind)
	if kind == 5 {
		req = c20Request(hkRoute)
		req.URL.Path = "/d" // answered by the internal redirect handler
	}
	// the recycled context has just served a route (with its own resolver when routeMode=1)
	serveCapture(f, c20Request(hkRoute))
	seen, seenErr = "", nil
	serveCapture(f, req)
	inRoute := kind == hkRoute || kind == hkRedirect // "/t" is served by "/t/" through the ignored trailing slash
	if kind == 5 {
		sym.Cover("ClientIP in the redirect handler")
	}
	want, wantErr := "", true
	if inRoute {
		switch {
		case routeMode == 1:
			want, wantErr = "198.51.100.2", false
		case routeMode == 0 && routerHas:
			want, wantErr = "198.51.100.1", false
		}
		sym.Cover("ClientIP in a route handler")
	} else {
		if routerHas {
			want, wantErr = "198.51.100.1", false
		}
		sym.Cover("ClientIP in a non-route handler")
	}
	if wantErr {
		sym.Assert(seenErr != nil && errors.Is(seenErr, fox.ErrNoClientIPResolver), "ClientIP fails with ErrNoClientIPResolver when no resolver applies")
	} else {
		sym.Assert(seenErr == nil && seen == want, "ClientIP uses the matched route's resolver in route handlers and the router-wide one elsewhere")
	}
}

var _ = net.IPv4len
var _ = http.MethodGet
var _ = url.URL{}
