package harness

import (
	"net/http"
	"net/url"

	"github.com/tigerwill90/fox"
	"verif/harness/sym"
)

type tracer struct{ ids []int }

func (t *tracer) mw(id int) fox.MiddlewareFunc {
	return func(next fox.HandlerFunc) fox.HandlerFunc {
		return func(c fox.Context) {
			t.ids = append(t.ids, id)
			next(c)
		}
	}
}

func sameInts(a, b []int) bool {
	if len(a) != len(b) {
		return false
	}
	for i := range a {
		if a[i] != b[i] {
			return false
		}
	}
	return true
}

var kindScope = []fox.HandlerScope{fox.RouteHandler, fox.NoRouteHandler, fox.NoMethodHandler, fox.RedirectHandler, fox.OptionsHandler}

// HarnessC13Chain: each handler kind runs wrapped by exactly the middleware whose scope includes it,
// once each, in registration order, global outside route-specific.
func HarnessC13Chain() {
	g := sym.Param("g")
	r := sym.Param("r")
	withDefaults := sym.Param("defaults") == 1
	t := &tracer{}
	var opts []fox.GlobalOption
	masks := make([]uint8, g)
	for i := 0; i < g; i++ {
		if sym.Choose("api"+string(rune('0'+i)), 2) == 0 {
			masks[i] = uint8(fox.AllHandlers)
			opts = append(opts, fox.WithMiddleware(t.mw(i)))
		} else {
			masks[i] = sym.Byte("mask" + string(rune('0'+i)))
			opts = append(opts, fox.WithMiddlewareFor(fox.HandlerScope(masks[i]), t.mw(i)))
		}
	}
	reached := -1
	mark := func(k int) fox.HandlerFunc {
		return func(c fox.Context) { reached = k; c.Writer().WriteHeader(200 + k) }
	}
	// redirecting on trailing slashes router-wide, or (routeredir=1) only on the route that needs it
	routeRedir := sym.ParamOr("routeredir", 0) == 1
	opts = append(opts, fox.WithNoRouteHandler(mark(hkNoRoute)), fox.WithNoMethodHandler(mark(hkNoMethod)),
		fox.WithOptionsHandler(mark(hkOptions)))
	if !routeRedir {
		opts = append(opts, fox.WithRedirectTrailingSlash(true))
	}
	if withDefaults {
		opts = append(opts, fox.DefaultOptions())
	}
	router, err := fox.New(opts...)
	sym.Assert(err == nil, "router created")
	if err != nil {
		return
	}
	var ropts []fox.RouteOption
	for j := 0; j < r; j++ {
		ropts = append(ropts, fox.WithMiddleware(t.mw(100+j)))
	}
	// the route under test: static, or (infix=1) with a catch-all in the middle of its pattern
	routePattern, routePath := "/r", "/r"
	if sym.ParamOr("infix", 0) == 1 {
		routePattern, routePath = "/r/*{any}/z", "/r/a/b/z"
		sym.Cover("route with an infix catch-all")
	}
	rte, err := router.Handle("GET", routePattern, mark(hkRoute), ropts...)
	sym.Assert(err == nil, "route registered")
	if err != nil {
		return
	}
	var tOpts []fox.RouteOption
	if routeRedir {
		tOpts = append(tOpts, fox.WithRedirectTrailingSlash(true))
		sym.Cover("redirect enabled per route only")
	}
	_, err = router.Handle("GET", "/t/", mark(hkRoute), tOpts...)
	sym.Assert(err == nil, "route registered")
	// a route reached by ignoring a trailing slash is a route handler like any other
	_, err = router.Handle("GET", "/i/", mark(hkRoute), append([]fox.RouteOption{fox.WithIgnoreTrailingSlash(true)}, ropts...)...)
	sym.Assert(err == nil, "route registered")
	// another route with different route middleware must not disturb the first one
	_, err = router.Handle("GET", "/other", mark(hkRoute), fox.WithMiddleware(t.mw(200), t.mw(201)))
	sym.Assert(err == nil, "route registered")

	expect := func(kind int) []int {
		var want []int
		for i := 0; i < g; i++ {
			if masks[i]&uint8(kindScope[kind]) != 0 {
				want = append(want, i)
			}
		}
		if kind == hkRoute {
			for j := 0; j < r; j++ {
				want = append(want, 100+j)
			}
		}
		return want
	}
	for kind := 0; kind < nHandlerKinds; kind++ {
		req := c20Request(kind)
		if kind == hkRoute || kind == hkNoMethod || kind == hkOptions {
			req.URL.Path = routePath
		}
		t.ids = nil
		reached = -1
		gh, esc := serveCapture(router, req)
		sym.Assert(esc == nil, "no panic")
		if kind == hkRedirect {
			sym.Assert(len(gh.finals) == 1 && gh.finals[0] == 301, "redirect handler ran")
		} else {
			sym.Assert(reached == kind, "the expected handler kind ran")
		}
		sym.Assert(sameInts(t.ids, expect(kind)), "middleware applied exactly per scope, once each, in registration order, global before route-specific")
	}
	{
		t.ids = nil
		reached = -1
		_, esc := serveCapture(router, &http.Request{Method: "GET", Host: "example.com", RemoteAddr: "192.0.2.1:1234", URL: &url.URL{Path: "/i"}, Header: http.Header{}})
		sym.Assert(esc == nil && reached == hkRoute, "the route ignoring the trailing slash ran")
		sym.Assert(sameInts(t.ids, expect(hkRoute)), "a route served by ignoring a trailing slash runs the full chain (global then route-specific)")
	}
	// Route.Handle runs the bare handler, Route.HandleMiddleware only the route-specific chain
	ctx := fox.NewTestContextOnly(&nullWriter{h: http.Header{}}, &http.Request{Method: "GET", URL: &url.URL{Path: "/r"}})
	t.ids = nil
	rte.Handle(ctx)
	sym.Assert(len(t.ids) == 0, "Route.Handle runs the bare handler")
	t.ids = nil
	rte.HandleMiddleware(ctx)
	var routeOnly []int
	for j := 0; j < r; j++ {
		routeOnly = append(routeOnly, 100+j)
	}
	sym.Assert(sameInts(t.ids, routeOnly), "Route.HandleMiddleware runs only the route-specific chain")
	// Update replaces the route-specific middleware
	_, err = router.Update("GET", routePattern, mark(hkRoute), fox.WithMiddleware(t.mw(300)))
	sym.Assert(err == nil, "route updated")
	t.ids = nil
	ureq := c20Request(hkRoute)
	ureq.URL.Path = routePath
	serveCapture(router, ureq)
	want := expect(hkRoute)
	want = append(want[:len(want)-r:len(want)-r], 300)
	sym.Assert(sameInts(t.ids, want), "Update replaces the route-specific middleware")
	if lr, lc, _ := router.Lookup(richRecorder(&ghost{sc: &script{}, hdr: http.Header{}}), ureq); lc != nil {
		t.ids = nil
		lr.HandleMiddleware(lc)
		sym.Assert(sameInts(t.ids, []int{300}), "the route a request is looked up to carries the updated route-specific middleware")
		lc.Close()
	}
	sym.Cover("chains compared")
	if g >= 3 {
		sym.Cover("three or more global middleware")
	}
}
