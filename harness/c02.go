package harness

import (
	"errors"

	"github.com/tigerwill90/fox"
	"verif/harness/sym"
)

type writeAPI interface {
	Handle(method, pattern string, handler fox.HandlerFunc, opts ...fox.RouteOption) (*fox.Route, error)
	HandleRoute(method string, route *fox.Route) error
	Update(method, pattern string, handler fox.HandlerFunc, opts ...fox.RouteOption) (*fox.Route, error)
	UpdateRoute(method string, route *fox.Route) error
	Delete(method, pattern string) (*fox.Route, error)
}

type readAPI interface {
	Reverse(method, host, path string) (*fox.Route, bool)
	Has(method, pattern string) bool
	Route(method, pattern string) *fox.Route
	Len() int
	Iter() fox.Iter
}

const (
	opHandle = iota
	opHandleRoute
	opUpdate
	opUpdateRoute
	opDelete
	opTruncateAll
	opTruncateMethod
	nOps
)

const defMax = 65535

func errKindOf(err error) int {
	switch {
	case err == nil:
		return eOK
	case errors.Is(err, fox.ErrInvalidRoute):
		return eInvalid
	case errors.Is(err, fox.ErrRouteExist):
		return eExist
	case errors.Is(err, fox.ErrRouteConflict):
		return eConflict
	case errors.Is(err, fox.ErrRouteNotFound):
		return eNotFound
	}
	return -1
}

// applyOp issues one write through w (router or write transaction; txn non-nil for Truncate) and
// checks its outcome against the model, which is updated. Returns false in a don't-care region.
func applyOp(r *fox.Router, w writeAPI, txn *fox.Txn, m *refMap, kind int, method, pattern string) bool {
	switch kind {
	case opHandle, opHandleRoute:
		want := m.handle(method, pattern, defMax, defMax)
		if want.ambiguous {
			return false
		}
		var rte *fox.Route
		var err error
		if kind == opHandle {
			rte, err = w.Handle(method, pattern, noopHandler)
		} else {
			var nerr error
			rte, nerr = r.NewRoute(pattern, noopHandler)
			if nerr != nil {
				// invalid pattern: NewRoute refuses; HandleRoute(nil) must refuse too
				sym.Assert(want.errKind == eInvalid || !validMethod(method), "NewRoute rejects only invalid patterns")
				err = w.HandleRoute(method, nil)
				sym.Assert(errKindOf(err) == eInvalid, "HandleRoute(nil route) is ErrInvalidRoute")
				return true
			}
			err = w.HandleRoute(method, rte)
		}
		sym.Assert(errKindOf(err) == want.errKind, "Handle succeeds or fails exactly as the map model says")
		if errKindOf(err) != want.errKind {
			return true
		}
		switch want.errKind {
		case eOK:
			sym.Cover("handle ok")
			sym.Assert(rte != nil && rte.Pattern() == pattern, "Handle returns the registered route")
			m.ents = append(m.ents, mentry{method, pattern, rte})
		case eExist:
			sym.Cover("handle: ErrRouteExist")
		case eInvalid:
			sym.Cover("handle: ErrInvalidRoute")
		case eConflict:
			sym.Cover("handle: ErrRouteConflict")
			var ce *fox.RouteConflictError
			ok := errors.As(err, &ce)
			sym.Assert(ok, "conflict error is a *RouteConflictError")
			if ok {
				sym.Assert(sameStringSet(ce.Matched, want.matched), "conflict names precisely the routes declaring a different wildcard at that position")
				sym.Assert(ce.Method == method && ce.Path == pattern, "conflict error names the new route")
			}
		}
	case opUpdate, opUpdateRoute:
		want := m.lookupForChange(method, pattern, defMax, defMax)
		if want.ambiguous {
			return false
		}
		var rte *fox.Route
		var err error
		if kind == opUpdate {
			rte, err = w.Update(method, pattern, noopHandler)
		} else {
			var nerr error
			rte, nerr = r.NewRoute(pattern, noopHandler)
			if nerr != nil {
				err = w.UpdateRoute(method, nil)
				sym.Assert(errKindOf(err) == eInvalid, "UpdateRoute(nil route) is ErrInvalidRoute")
				return true
			}
			err = w.UpdateRoute(method, rte)
		}
		sym.Assert(errKindOf(err) == want.errKind, "Update succeeds or fails exactly as the map model says")
		if errKindOf(err) != want.errKind {
			return true
		}
		if want.errKind == eOK {
			sym.Cover("update ok")
			sym.Assert(rte != nil && rte.Pattern() == pattern, "Update returns the new route")
			m.ents[m.find(method, pattern)].route = rte
		} else if want.errKind == eNotFound {
			sym.Cover("update: ErrRouteNotFound")
		}
	case opDelete:
		want := m.lookupForChange(method, pattern, defMax, defMax)
		if want.ambiguous {
			return false
		}
		rte, err := w.Delete(method, pattern)
		sym.Assert(errKindOf(err) == want.errKind, "Delete succeeds or fails exactly as the map model says")
		if errKindOf(err) != want.errKind {
			return true
		}
		if want.errKind == eOK {
			sym.Cover("delete ok")
			k := m.find(method, pattern)
			sym.Assert(rte == m.ents[k].route, "Delete returns the removed route")
			m.ents = append(append([]mentry(nil), m.ents[:k]...), m.ents[k+1:]...)
		} else if want.errKind == eNotFound {
			sym.Cover("delete: ErrRouteNotFound")
		}
	case opTruncateAll:
		sym.Cover("truncate all")
		sym.Assert(txn.Truncate() == nil, "Truncate succeeds in a write transaction")
		m.truncate()
	case opTruncateMethod:
		sym.Cover("truncate method")
		sym.Assert(txn.Truncate(method) == nil, "Truncate succeeds in a write transaction")
		m.truncate(method)
	}
	return true
}

// checkObs compares every reader of rd with the model; probes are extra (method, pattern) keys.
func checkObs(rd readAPI, m *refMap, probes []mentry, who string) {
	checkObsOpt(rd, m, probes, who, true)
}

// checkObsOpt: withIter=false skips the iterators (Txn.Iter on a write transaction resets its writable-node
// cache, which would hide cache related defects from the following steps).
func checkObsOpt(rd readAPI, m *refMap, probes []mentry, who string, withIter bool) {
	sym.Assert(rd.Len() == len(m.ents), who+": Len() equals the number of registered routes")
	for _, e := range m.ents {
		sym.Assert(rd.Has(e.method, e.pattern), who+": Has() true for a registered route")
		sym.Assert(rd.Route(e.method, e.pattern) == e.route, who+": Route() returns the stored route")
	}
	for _, p := range probes {
		if m.find(p.method, p.pattern) < 0 {
			sym.Assert(!rd.Has(p.method, p.pattern), who+": Has() false for an unregistered key")
			sym.Assert(rd.Route(p.method, p.pattern) == nil, who+": Route() nil for an unregistered key")
		}
	}
	checkRouting(rd, m, probes, who, withIter)
	if !withIter {
		return
	}
	it := rd.Iter()
	// All
	var seen []mentry
	for method, route := range it.All() {
		seen = append(seen, mentry{method, route.Pattern(), route})
	}
	sym.Assert(len(seen) == len(m.ents), who+": Iter.All yields exactly the registered routes")
	for _, s := range seen {
		k := m.find(s.method, s.pattern)
		sym.Assert(k >= 0 && m.ents[k].route == s.route, who+": Iter.All yields only registered routes")
	}
	// Methods
	var ms []string
	for x := range it.Methods() {
		ms = append(ms, x)
	}
	sym.Assert(sameStringSet(ms, m.methods()), who+": Iter.Methods yields exactly the methods that have routes")
	// Prefix: for each registered pattern (a sample of them when there are many), three prefix lengths
	stride := 1
	if len(m.ents) > 10 {
		stride = len(m.ents) / 4
	}
	for ei, e := range m.ents {
		if ei%stride != 0 && ei != len(m.ents)-1 {
			continue
		}
		for _, cut := range []int{1, len(e.pattern) / 2, len(e.pattern)} {
			if cut < 0 || cut > len(e.pattern) {
				continue
			}
			pre := e.pattern[:cut]
			n := 0
			for method, route := range it.Prefix(seqOf(e.method), pre) {
				k := m.find(method, route.Pattern())
				sym.Assert(k >= 0 && hasPrefixStr(route.Pattern(), pre) && method == e.method, who+": Iter.Prefix yields only registered routes with that prefix")
				n++
			}
			want := 0
			for _, x := range m.ents {
				if x.method == e.method && hasPrefixStr(x.pattern, pre) {
					want++
				}
			}
			sym.Assert(n == want, who+": Iter.Prefix yields every registered route with that prefix")
			// over every method at once
			n, want = 0, 0
			for method, route := range it.Prefix(it.Methods(), pre) {
				k := m.find(method, route.Pattern())
				sym.Assert(k >= 0 && m.ents[k].route == route && hasPrefixStr(route.Pattern(), pre), who+": Iter.Prefix over all methods yields only registered routes with that prefix")
				n++
			}
			for _, x := range m.ents {
				if hasPrefixStr(x.pattern, pre) {
					want++
				}
			}
			sym.Assert(n == want, who+": Iter.Prefix over all methods yields every registered route with that prefix")
		}
	}
	// Routes
	for ei, e := range m.ents {
		if ei%stride != 0 && ei != len(m.ents)-1 {
			continue
		}
		n := 0
		for method, route := range it.Routes(it.Methods(), e.pattern) {
			k := m.find(method, e.pattern)
			sym.Assert(k >= 0 && m.ents[k].route == route, who+": Iter.Routes yields the stored route of each method")
			n++
		}
		want := 0
		for _, x := range m.ents {
			if x.pattern == e.pattern {
				want++
			}
		}
		sym.Assert(n == want, who+": Iter.Routes yields one entry per method having that pattern")
	}
}

var c02Methods = []string{"GET", "FOO", "POST", ""}

// pattern pool: shares prefixes, parameters, catch-alls, hostnames; conflicts with each other.
var c02Pool = []string{
	"/a", "/a/{x}", "/a/{y}", "/a/*{w}", "/a/{x}/b", "a.b/", "/s/a", "/s/c",
	"{h}.b/x", "/", "/ab", "/a/b", "/a/*{v}", "/a/*{w}/c", "/b{x}", "/b{y}/c", "a.b/x", "{g}.b/", "/{x", "/a/b/",
	// hostnames that are label-wise prefixes of each other, ending in a parameter label (window selected with poolfrom)
	"a.{b}/", "a.{b}.c/", "a.{b}/x", "{a}.{b}/",
	// a route on an existing branching node that has no route yet, and writes below it (window 24..27, with the siblings-3 set)
	"/s/", "/s/bx", "/s/a", "/s/d/e",
	// writes beneath an infix catch-all node that has children (window 28..31, with the infix-children set)
	"/f/*{p}/ba/m", "/f/*{p}/bd", "/f/*{p}/b", "/f/*{p}/bc/x",
}

type c02State struct {
	set   RouteSet
	r     *fox.Router
	model *refMap
}

func SetupC02History() any {
	idx := sym.Param("set")
	var set RouteSet
	if idx >= 0 {
		set = corpusSet(idx)
	}
	r, routes := buildRouter(set)
	m := &refMap{}
	for i, rt := range set.Routes {
		m.ents = append(m.ents, mentry{rt.Method, rt.Pattern, routes[i]})
	}
	return &c02State{set: set, r: r, model: m}
}

// HarnessC02History: k writes (direct, or in a committed / aborted transaction) against R-map.
func HarnessC02History(st any) {
	s := st.(*c02State)
	k := sym.Param("k")
	nm := sym.Param("methods")
	symLen := sym.Param("symlen") // >0: the first op uses a symbolic pattern of that many bytes
	model := s.model.clone()
	var probes []mentry
	via := sym.Choose("via", 3) // 0 direct, 1 committed txn, 2 aborted txn
	var txn *fox.Txn
	var w writeAPI = s.r
	if via > 0 {
		txn = s.r.Txn(true)
		w = txn
	}
	pre := model.clone()
	for step := 0; step < k; step++ {
		kind := sym.Choose("kind"+string(rune('0'+step)), nOps)
		if via == 0 && (kind == opTruncateAll || kind == opTruncateMethod) {
			sym.Assume(false) // Truncate only exists on transactions
		}
		method := c02Methods[sym.Choose("m"+string(rune('0'+step)), nm)]
		var pattern string
		if symLen > 0 && step == 0 {
			pattern = sym.String("pat", symLen)
		} else {
			pattern = c02Pool[sym.ParamOr("poolfrom", 0)+sym.Choose("p"+string(rune('0'+step)), sym.Param("pool"))]
		}
		probes = append(probes, mentry{method: method, pattern: pattern})
		before := model.clone()
		if !applyOp(s.r, w, txn, model, kind, method, pattern) {
			if txn != nil {
				txn.Abort()
			}
			return
		}
		_ = before
		if via == 0 {
			checkObs(s.r, model, probes, "router")
		} else {
			// iter=0: no iterator on the open transaction between steps (keeps its writable-node cache alive)
			checkObsOpt(txn, model, probes, "txn", sym.ParamOr("iter", 1) == 1)
			checkObs(s.r, pre, probes, "router during txn")
		}
	}
	if via > 0 {
		checkObs(txn, model, probes, "txn before it ends")
		// a snapshot of the transaction is one more reader of the same state
		checkObs(txn.Snapshot(), model, probes, "snapshot of the txn before it ends")
	}
	switch via {
	case 1:
		txn.Commit()
		checkObs(s.r, model, probes, "router after commit")
	case 2:
		txn.Abort()
		checkObs(s.r, pre, probes, "router after abort")
	}
}

// checkRouting: requests are routed according to the reader's own state (its uncommitted writes included):
// every path-only, wildcard-free registered pattern and every such probe, used as a request path, is answered
// as the reference matcher over the model's routes says - by Reverse and, when allowed, by Iter().Reverse.
func checkRouting(rd readAPI, m *refMap, probes []mentry, who string, withIter bool) {
	if sym.ParamOr("symlen", 0) != 0 {
		return // symbolic patterns in the model: the reference trie needs concrete patterns
	}
	var set RouteSet
	for _, e := range m.ents {
		set.Routes = append(set.Routes, R{e.method, e.pattern})
	}
	ref := newRefRouter(set)
	var cands []mentry
	cands = append(cands, m.ents...)
	cands = append(cands, probes...)
	for _, c := range cands {
		if c.method == "" || len(c.pattern) == 0 || c.pattern[0] != '/' || hasWildcard(c.pattern) || hasEmptySegment(c.pattern) {
			continue
		}
		want := ref.lookup(c.method, "", c.pattern, true)
		if want.ambiguous {
			continue
		}
		got, tsr := rd.Reverse(c.method, "", c.pattern)
		if want.route == nil {
			sym.Assert(got == nil, who+": Reverse finds no route where the reader's own state has none")
			continue
		}
		sym.Assert(got != nil && got.Pattern() == want.route.pattern && tsr == want.tsr, who+": Reverse routes by the reader's own state")
		if withIter {
			n := 0
			var via *fox.Route
			for _, r := range rd.Iter().Reverse(seqOf(c.method), "", c.pattern) {
				via = r
				n++
			}
			if !want.tsr {
				sym.Assert(n == 1 && via != nil && via.Pattern() == want.route.pattern, who+": Iter().Reverse routes by the state the iterator was taken from")
			}
		}
	}
}
