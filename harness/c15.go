package harness

import (
	"errors"
	"fmt"
	"net"
	"net/http"
	"net/url"
	"os"

	"github.com/tigerwill90/fox"
	"verif/harness/sym"
)

type c15State struct {
	sink   *logSink
	r      *fox.Router
	behave func(c fox.Context)
	okHit  bool
	kind   int
}

func SetupC15Panic() any {
	st := &c15State{sink: &logSink{}, kind: sym.Param("kind")}
	h := func(c fox.Context) { st.behave(c) }
	r, err := fox.New(
		fox.WithNoRouteHandler(h), fox.WithNoMethodHandler(h), fox.WithOptionsHandler(h),
		fox.WithMiddleware(fox.CustomRecoveryWithLogHandler(captureHandler{st.sink}, fox.DefaultHandleRecovery)),
	)
	if err != nil {
		panic(err)
	}
	if _, err := r.Handle("GET", "/p/{id}", h); err != nil {
		panic(err)
	}
	if _, err := r.Handle("GET", "/ok", func(c fox.Context) { st.okHit = true; c.Writer().WriteHeader(204) }); err != nil {
		panic(err)
	}
	st.r = r
	return st
}

type customPanic struct{ n int }

var errPlain = errors.New("plain failure")

func opError(msg string) any {
	return &net.OpError{Op: "write", Net: "tcp", Err: &os.SyscallError{Syscall: "write", Err: errors.New(msg)}}
}

const nPanicValues = 10

func panicValue(i int) (v any, abort bool, broken bool) {
	switch i {
	case 0:
		return errPlain, false, false
	case 1:
		return fmt.Errorf("wrapped: %w", http.ErrAbortHandler), true, false
	case 2:
		return http.ErrAbortHandler, true, false
	case 3:
		return "a string", false, false
	case 4:
		return customPanic{4}, false, false
	case 5:
		return opError("broken pipe"), false, true
	case 6:
		return opError("Connection reset by peer"), false, true
	case 7:
		return opError("no route to host"), false, false
	case 8:
		return nil, false, false // run-time error raised inside the handler
	}
	return &net.OpError{Op: "read", Err: errPlain}, false, false // OpError without SyscallError
}

func containsStr(s, sub string) bool {
	for i := 0; i+len(sub) <= len(s); i++ {
		if s[i:i+len(sub)] == sub {
			return true
		}
	}
	return false
}

// HarnessC15Panic: Recovery contains handler panics (re-raising only http.ErrAbortHandler), answers 500
// only when nothing was written and the connection is not broken, and leaves the router usable.
func HarnessC15Panic(st any) {
	s := st.(*c15State)
	pv := sym.Choose("value", nPanicValues)
	progress := sym.Choose("progress", 4) // 0 nothing, 1 header only, 2 partial body, 3 flushed only
	val, abort, broken := panicValue(pv)
	s.behave = func(c fox.Context) {
		switch progress {
		case 1:
			c.Writer().WriteHeader(202)
		case 2:
			_, _ = c.Writer().Write([]byte("ab"))
		case 3:
			_ = c.Writer().FlushError()
		}
		if pv == 8 {
			var m map[string]int
			m["x"] = 1 // assignment to entry in nil map
		}
		panic(val)
	}
	req := c20Request(s.kind)
	if s.kind == hkRoute {
		req.URL.Path = "/p/42"
	}
	req.Header = http.Header{"X-Trace": {"t-123"}}
	s.sink.recs = nil
	var g *ghost
	var escaped any
	if progress == 3 {
		// a writer offering FlushError: the flush sends the (implicit 200) header
		g = &ghost{sc: &script{}, hdr: http.Header{}}
		escaped = panicsWith(func() { s.r.ServeHTTP(richW{g, &capCalls{}}, req) })
		sym.Cover("panic after a flush")
	} else {
		g, escaped = serveCapture(s.r, req)
	}

	wantFinals, wantBody := 0, ""
	switch progress {
	case 1, 3:
		wantFinals = 1
	case 2:
		wantFinals, wantBody = 1, "ab"
	}
	if abort {
		sym.Cover("ErrAbortHandler re-raised")
		e, ok := escaped.(error)
		sym.Assert(ok && errors.Is(e, http.ErrAbortHandler), "http.ErrAbortHandler is re-raised")
		ev, _ := val.(error)
		sym.Assert(ok && e == ev, "the re-raised value is the original one")
		sym.Assert(len(g.finals) == wantFinals && string(g.body) == wantBody, "response untouched when the panic is re-raised")
	} else {
		sym.Assert(escaped == nil, "a panic never escapes ServeHTTP (except http.ErrAbortHandler)")
		if progress == 0 && !broken {
			sym.Cover("500 written")
			sym.Assert(len(g.finals) == 1 && g.finals[0] == 500, "500 when nothing had been written")
		} else {
			if broken {
				sym.Cover("broken connection: nothing written")
			}
			sym.Assert(len(g.finals) == wantFinals && string(g.body) == wantBody, "an already started response (or a broken connection) is left untouched")
			if wantFinals == 1 && progress == 1 {
				sym.Assert(g.finals[0] == 202, "the started response keeps its status")
			}
			if progress == 3 && len(g.finals) == 1 {
				sym.Assert(g.finals[0] == 200, "a flushed response keeps its status")
			}
		}
		// diagnostic record
		sym.Assert(len(s.sink.recs) == 1, "one diagnostic record per recovered panic")
		if len(s.sink.recs) == 1 {
			rec := s.sink.recs[0]
			sym.Assert(rec.level == 8, "the record is logged at ERROR")
			route, _ := s.sink.get(rec, "route")
			if s.kind == hkRoute {
				sym.Assert(route == any("/p/{id}"), "the record names the route")
				id, ok := s.sink.get(rec, "params.id")
				sym.Assert(ok && id == any("42"), "the record names the route parameters")
			} else {
				sym.Assert(route != any("") && route != nil, "the record names the handler scope when there is no route")
			}
			sym.Assert(containsStr(rec.msg, req.Method+" "+req.URL.Path+" HTTP/"), "the record contains the request line")
			sym.Assert(containsStr(rec.msg, "t-123"), "ordinary headers are dumped")
		}
	}
	// the router stays fully usable
	sym.Assert(s.r.Len() == 2 && s.r.Has("GET", "/p/{id}") && s.r.Has("GET", "/ok"), "routes unchanged after a handler panic")
	s.okHit = false
	g2, esc2 := serveCapture(s.r, &http.Request{Method: "GET", Host: "example.com", URL: &url.URL{Path: "/ok"}})
	sym.Assert(esc2 == nil && s.okHit && len(g2.finals) == 1 && g2.finals[0] == 204, "later requests are served normally")
	_, err := s.r.Handle("GET", "/new", noopHandler)
	sym.Assert(err == nil, "the writer lock is free after a handler panic")
}

var sensitiveHeaders = []string{"Authorization", "Proxy-Authorization", "Cookie", "Set-Cookie", "X-CSRF-Token", "X-Vault-Token"}

func SetupC15Redact() any {
	st := &c15State{sink: &logSink{}}
	r, err := fox.New(fox.WithMiddleware(fox.CustomRecoveryWithLogHandler(captureHandler{st.sink}, fox.DefaultHandleRecovery)))
	if err != nil {
		panic(err)
	}
	if _, err := r.Handle("GET", "/p/{id}", func(c fox.Context) { panic(errPlain) }); err != nil {
		panic(err)
	}
	st.r = r
	return st
}

// HarnessC15Redact: the diagnostic record never contains the value of a credential-bearing header,
// however its name is capitalised (2^len spellings decided at once by the solver).
func HarnessC15Redact(st any) {
	s := st.(*c15State)
	which := sym.Param("header")
	name := sensitiveHeaders[which]
	raw := sym.Bytes("name", len(name))
	for i := 0; i < len(name); i++ {
		c := name[i]
		if isLetter(c) {
			sym.Assume(raw[i]|0x20 == c|0x20) // either case
		} else {
			sym.Assume(raw[i] == c)
		}
	}
	spelled := string(raw)
	const marker = "S3CR3T-VALUE"
	req := &http.Request{Method: "GET", Host: "example.com", URL: &url.URL{Path: "/p/7"},
		Header: http.Header{spelled: {marker}, "X-Ordinary": {"visible"}}}
	s.sink.recs = nil
	_, escaped := serveCapture(s.r, req)
	sym.Assert(escaped == nil, "panic contained")
	sym.Assert(len(s.sink.recs) == 1, "one diagnostic record")
	if len(s.sink.recs) != 1 {
		return
	}
	msg := s.sink.recs[0].msg
	if spelled == name {
		sym.Cover("spelled as in the list")
	} else {
		sym.Cover("other capitalisation")
	}
	sym.Assert(!containsStr(msg, marker), "the value of a credential-bearing header never reaches the log")
	sym.Assert(containsStr(msg, "visible"), "ordinary header values are logged")
}
