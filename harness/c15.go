package harness

import (
	"errors"
	"fmt"
	"net"
	"net/http"
	"net/url"
	"os"

	"github.com/tigerwill90/fox"
	"verif/harness/sym"
)

type c15State struct {
	sink   *logSink
	r      *fox.Router
	behave func(c fox.Context)
	okHit  bool
	kind   int
}

func SetupC15Panic() any {
	st := &c15State{sink: &logSink{}, kind: sym.ParamOr("kind", 0)}
	h := func(c fox.Context) { st.behave(c) }
	r, err := fox.New(
		fox.WithNoRouteHandler(h), fox.WithNoMethodHandler(h), fox.WithOptionsHandler(h),
		fox.WithMiddleware(fox.CustomRecoveryWithLogHandler(captureHandler{st.sink}, fox.DefaultHandleRecovery)),
	)
	if err != nil {
		panic(err)
	}
	if _, err := r.Handle("GET", "/p/{id}", h); err != nil {
		panic(err)
	}
	if _, err := r.Handle("GET", "/ok", func(c fox.Context) { st.okHit = true; c.Writer().WriteHeader(204) }); err != nil {
		panic(err)
	}
	st.r = r
	return st
}

type customPanic struct{ n int }

var errPlain = errors.New("plain failure")

func opError(msg string) any {
	return &net.OpError{Op: "write", Net: "tcp", Err: &os.SyscallError{Syscall: "write", Err: errors.New(msg)}}
}

const nPanicValues = 12

func panicValue(i int) (v any, abort bool, broken bool) {
	switch i {
	case 0:
		return errPlain, false, false
	case 1:
		return fmt.Errorf("wrapped: %w", http.ErrAbortHandler), true, false
	case 2:
		return http.ErrAbortHandler, true, false
	case 3:
		return "a string", false, false
	case 4:
		return customPanic{4}, false, false
	case 5:
		return opError("broken pipe"), false, true
	case 6:
		return opError("Connection reset by peer"), false, true
	case 7:
		return opError("no route to host"), false, false
	case 8:
		return nil, false, false // run-time error raised inside the handler
	case 10:
		// the syscall error two levels down the Unwrap chain
		return &net.OpError{Op: "write", Net: "tcp", Err: &net.OpError{Op: "write", Net: "tcp", Err: &os.SyscallError{Syscall: "write", Err: errors.New("broken pipe")}}}, false, true
	case 11:
		return &net.OpError{Op: "write", Net: "tcp", Err: fmt.Errorf("flush: %w", &os.SyscallError{Syscall: "write", Err: errors.New("connection reset by peer")})}, false, true
	}
	return &net.OpError{Op: "read", Err: errPlain}, false, false // OpError without SyscallError
}

// panicSource hands out its data, then panics on the next Read.
type panicSource struct {
	data       []byte
	runtimeErr bool
	val        any
}

func (p *panicSource) Read(b []byte) (int, error) {
	if len(p.data) > 0 {
		n := copy(b, p.data)
		p.data = p.data[n:]
		return n, nil
	}
	if p.runtimeErr {
		var m map[string]int
		m["x"] = 1
	}
	panic(p.val)
}

func containsStr(s, sub string) bool {
	for i := 0; i+len(sub) <= len(s); i++ {
		if s[i:i+len(sub)] == sub {
			return true
		}
	}
	return false
}

// HarnessC15Panic: Recovery contains handler panics (re-raising only http.ErrAbortHandler), answers 500
// only when nothing was written and the connection is not broken, and leaves the router usable.
func HarnessC15Panic(st any) {
	s := st.(*c15State)
	pv := sym.Choose("value", nPanicValues)
	progress := sym.Choose("progress", 6) // 0 nothing, 1 header only, 2 partial body, 3 flushed only, 4 protocol switch (101) only, 5 body streamed with ReadFrom from a source that panics mid-copy
	rfWriter := 0
	if progress == 5 {
		rfWriter = sym.Choose("rfwriter", 2) // 0: the underlying writer has no io.ReaderFrom (copy loop), 1: it has one (fast path)
	}
	val, abort, broken := panicValue(pv)
	s.behave = func(c fox.Context) {
		switch progress {
		case 1:
			c.Writer().WriteHeader(202)
		case 2:
			_, _ = c.Writer().Write([]byte("ab"))
		case 3:
			_ = c.Writer().FlushError()
		case 4:
			c.Writer().WriteHeader(http.StatusSwitchingProtocols)
		case 5:
			_, _ = c.Writer().ReadFrom(&panicSource{data: []byte("ab"), runtimeErr: pv == 8, val: val})
		}
		if pv == 8 {
			var m map[string]int
			m["x"] = 1 // assignment to entry in nil map
		}
		panic(val)
	}
	req := c20Request(s.kind)
	if s.kind == hkRoute {
		req.URL.Path = "/p/42"
	}
	req.Header = http.Header{"X-Trace": {"t-123"}}
	s.sink.recs = nil
	var g *ghost
	var escaped any
	if progress == 5 && rfWriter == 1 {
		g = &ghost{sc: &script{}, hdr: http.Header{}}
		escaped = panicsWith(func() { s.r.ServeHTTP(richW{g, &capCalls{}}, req) })
		sym.Cover("panic in the source of a ReadFrom (underlying io.ReaderFrom)")
	} else if progress == 3 {
		// a writer offering FlushError: the flush sends the (implicit 200) header
		g = &ghost{sc: &script{}, hdr: http.Header{}}
		escaped = panicsWith(func() { s.r.ServeHTTP(richW{g, &capCalls{}}, req) })
		sym.Cover("panic after a flush")
	} else {
		g, escaped = serveCapture(s.r, req)
	}

	wantFinals, wantBody := 0, ""
	switch progress {
	case 1, 3, 4:
		wantFinals = 1
	case 2, 5:
		wantFinals, wantBody = 1, "ab"
	}
	untouched := "an already started response (or a broken connection) is left untouched"
	if progress == 5 && rfWriter == 1 {
		untouched = "a response started through the underlying writer's ReadFrom, whose source then panicked, is left untouched"
	}
	if progress == 5 && rfWriter == 0 {
		sym.Cover("panic in the source of a ReadFrom (copy loop)")
	}
	if abort {
		sym.Cover("ErrAbortHandler re-raised")
		e, ok := escaped.(error)
		sym.Assert(ok && errors.Is(e, http.ErrAbortHandler), "http.ErrAbortHandler is re-raised")
		ev, _ := val.(error)
		sym.Assert(ok && e == ev, "the re-raised value is the original one")
		sym.Assert(len(g.finals) == wantFinals && string(g.body) == wantBody, "response untouched when the panic is re-raised")
	} else {
		sym.Assert(escaped == nil, "a panic never escapes ServeHTTP (except http.ErrAbortHandler)")
		if progress == 0 && !broken {
			sym.Cover("500 written")
			sym.Assert(len(g.finals) == 1 && g.finals[0] == 500, "500 when nothing had been written")
		} else {
			if broken {
				sym.Cover("broken connection: nothing written")
			}
			sym.Assert(len(g.finals) == wantFinals && string(g.body) == wantBody, untouched)
			if wantFinals == 1 && progress == 1 {
				sym.Assert(g.finals[0] == 202, "the started response keeps its status")
			}
			if progress == 4 && len(g.finals) == 1 {
				sym.Cover("panic after a protocol switch")
				sym.Assert(g.finals[0] == 101, "a switched (101) response is left untouched")
			}
			if progress == 3 && len(g.finals) == 1 {
				sym.Assert(g.finals[0] == 200, "a flushed response keeps its status")
			}
		}
		// diagnostic record
		sym.Assert(len(s.sink.recs) == 1, "one diagnostic record per recovered panic")
		if len(s.sink.recs) == 1 {
			rec := s.sink.recs[0]
			sym.Assert(rec.level == 8, "the record is logged at ERROR")
			route, _ := s.sink.get(rec, "route")
			if s.kind == hkRoute {
				sym.Assert(route == any("/p/{id}"), "the record names the route")
				id, ok := s.sink.get(rec, "params.id")
				sym.Assert(ok && id == any("42"), "the record names the route parameters")
			} else {
				sym.Assert(route != any("") && route != nil, "the record names the handler scope when there is no route")
			}
			sym.Assert(containsStr(rec.msg, req.Method+" "+req.URL.Path+" HTTP/"), "the record contains the request line")
			sym.Assert(containsStr(rec.msg, "t-123"), "ordinary headers are dumped")
		}
	}
	// the router stays fully usable
	sym.Assert(s.r.Len() == 2 && s.r.Has("GET", "/p/{id}") && s.r.Has("GET", "/ok"), "routes unchanged after a handler panic")
	s.okHit = false
	g2, esc2 := serveCapture(s.r, &http.Request{Method: "GET", Host: "example.com", URL: &url.URL{Path: "/ok"}})
	sym.Assert(esc2 == nil && s.okHit && len(g2.finals) == 1 && g2.finals[0] == 204, "later requests are served normally")
	_, err := s.r.Handle("GET", "/new", noopHandler)
	sym.Assert(err == nil, "the writer lock is free after a handler panic")
}

var sensitiveHeaders = []string{"Authorization", "Proxy-Authorization", "Cookie", "Set-Cookie", "X-CSRF-Token", "X-Vault-Token"}

func SetupC15Redact() any {
	st := &c15State{sink: &logSink{}}
	r, err := fox.New(fox.WithMiddleware(fox.CustomRecoveryWithLogHandler(captureHandler{st.sink}, fox.DefaultHandleRecovery)))
	if err != nil {
		panic(err)
	}
	if _, err := r.Handle("GET", "/p/{id}", func(c fox.Context) { panic(errPlain) }); err != nil {
		panic(err)
	}
	st.r = r
	return st
}

// HarnessC15Redact: the diagnostic record never contains the value of a credential-bearing header,
// however its name is capitalised (2^len spellings decided at once by the solver).
func HarnessC15Redact(st any) {
	s := st.(*c15State)
	which := sym.Param("header")
	name := sensitiveHeaders[which]
	raw := sym.Bytes("name", len(name))
	for i := 0; i < len(name); i++ {
		c := name[i]
		if isLetter(c) {
			sym.Assume(raw[i]|0x20 == c|0x20) // either case
		} else {
			sym.Assume(raw[i] == c)
		}
	}
	spelled := string(raw)
	const marker = "S3CR3T-VALUE"
	req := &http.Request{Method: "GET", Host: "example.com", URL: &url.URL{Path: "/p/7"},
		Header: http.Header{spelled: {marker}, "X-Ordinary": {"visible"}}}
	s.sink.recs = nil
	_, escaped := serveCapture(s.r, req)
	sym.Assert(escaped == nil, "panic contained")
	sym.Assert(len(s.sink.recs) == 1, "one diagnostic record")
	if len(s.sink.recs) != 1 {
		return
	}
	msg := s.sink.recs[0].msg
	if spelled == name {
		sym.Cover("spelled as in the list")
	} else {
		sym.Cover("other capitalisation")
	}
	sym.Assert(!containsStr(msg, marker), "the value of a credential-bearing header never reaches the log")
	sym.Assert(containsStr(msg, "visible"), "ordinary header values are logged")
}

// ---- panics inside managed transaction functions -------------------------------------------------

const nTxnSteps = 6

// c15Step performs one write of a managed transaction function.
func c15Step(txn *fox.Txn, op, i int) {
	switch op {
	case 0:
		_, _ = txn.Handle("GET", "/n"+string(rune('0'+i)), noopHandler)
	case 1:
		_, _ = txn.Update("GET", "/ok", noopHandler)
	case 2:
		_, _ = txn.Delete("GET", "/p/{id}")
	case 3:
		_ = txn.Truncate("GET")
	case 4:
		_ = txn.Truncate()
	case 5:
		_, _ = txn.Handle("POST", "/p/{id}", noopHandler)
	}
}

func SetupC15Txn() any { return SetupC15Panic() }

// HarnessC15Txn: a panic after any step of an Updates/View function (run by a handler under Recovery, or
// directly) is contained resp. re-raised, and leaves the routes unchanged and the writer lock free.
func HarnessC15Txn(st any) {
	s := st.(*c15State)
	k := sym.Param("k")
	// 0 Updates inside a handler, 1 Updates called directly, 2 View inside a handler,
	// 3 / 4 a single-operation write (Handle / Update) that panics while the route is being built, inside a handler
	mode := sym.Choose("mode", 5)
	at := sym.Choose("at", k+1) // the panic is raised after this many steps
	ops := make([]int, k)
	for i := 0; i < k; i++ {
		ops[i] = sym.Choose("op"+string(rune('0'+i)), nTxnSteps)
	}
	fn := func(txn *fox.Txn) error {
		for i := 0; i < k; i++ {
			if i == at {
				panic(customPanic{i})
			}
			if mode == 2 {
				txn.Has("GET", "/ok")
				_ = txn.Len()
			} else {
				c15Step(txn, ops[i], i)
			}
		}
		panic(customPanic{k})
	}
	if mode >= 2 {
		for i := 0; i < k; i++ {
			sym.Assume(ops[i] == 0) // the steps of a View are reads: one representative
		}
	}
	if mode >= 3 {
		sym.Assume(at == 0)
	}
	panicMW := func(next fox.HandlerFunc) fox.HandlerFunc { panic(customPanic{0}) }
	s.behave = func(c fox.Context) {
		switch mode {
		case 2:
			_ = c.Fox().View(fn)
		case 3:
			_, _ = c.Fox().Handle("GET", "/boom", noopHandler, fox.WithMiddleware(panicMW))
		case 4:
			_, _ = c.Fox().Update("GET", "/ok", noopHandler, fox.WithMiddleware(panicMW))
		default:
			_ = c.Fox().Updates(fn)
		}
	}
	s.sink.recs = nil
	if mode == 1 {
		escaped := panicsWith(func() { _ = s.r.Updates(fn) })
		cp, ok := escaped.(customPanic)
		sym.Assert(ok && cp.n == at, "a panic inside Updates reaches the caller unchanged")
		sym.Cover("panic inside a direct Updates")
	} else {
		req := c20Request(hkRoute)
		req.URL.Path = "/p/42"
		g, escaped := serveCapture(s.r, req)
		sym.Assert(escaped == nil, "a panic inside a managed transaction run by a handler never escapes ServeHTTP")
		sym.Assert(len(g.finals) == 1 && g.finals[0] == 500, "500 when nothing had been written")
		sym.Assert(len(s.sink.recs) == 1, "one diagnostic record per recovered panic")
		switch mode {
		case 0:
			sym.Cover("panic inside Updates in a handler")
		case 2:
			sym.Cover("panic inside View in a handler")
		default:
			sym.Cover("panic inside a single-operation write in a handler")
		}
	}
	// the routes are unchanged: by pattern, by count, by iteration and by routing
	sym.Assert(s.r.Len() == 2 && s.r.Has("GET", "/p/{id}") && s.r.Has("GET", "/ok") && !s.r.Has("POST", "/p/{id}"), "routes unchanged after a panic inside a managed transaction")
	n := 0
	for range s.r.Iter().All() {
		n++
	}
	sym.Assert(n == 2, "iteration shows the unchanged routes")
	rte, _ := s.r.Reverse("GET", "", "/p/42")
	sym.Assert(rte != nil && rte.Pattern() == "/p/{id}", "routing unchanged after a panic inside a managed transaction")
	s.okHit = false
	g2, esc2 := serveCapture(s.r, &http.Request{Method: "GET", Host: "example.com", URL: &url.URL{Path: "/ok"}})
	sym.Assert(esc2 == nil && s.okHit && len(g2.finals) == 1 && g2.finals[0] == 204, "later requests are served normally")
	blocked := sym.WouldBlock(func() {
		_, err := s.r.Handle("GET", "/new", noopHandler)
		sym.Assert(err == nil, "a write succeeds after the panic")
		_, err = s.r.Delete("GET", "/new")
		sym.Assert(err == nil, "and can be undone")
	})
	sym.Assert(!blocked, "the writer lock is free after a panic inside a managed transaction")
}
