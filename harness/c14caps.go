package harness

import (
	"errors"
	"io"
	"net/http"
	"net/url"
	"time"

	"github.com/tigerwill90/fox"
	"verif/harness/sym"
)

func SetupC14Caps() any { return SetupC14Seq() }

// HarnessC14Caps: optional capabilities are delegated exactly once or fail with http.ErrNotSupported;
// the Context helpers send exactly the status, content type and bytes they are given.
func HarnessC14Caps(st any) {
	s := st.(*c14State)
	variant := sym.Param("variant") // 0 plain, 1 rich
	what := sym.Choose("what", 9)
	sc := &script{}
	g := &ghost{sc: sc, hdr: http.Header{}}
	calls := &capCalls{}
	s.handler = func(c fox.Context) {
		w := c.Writer()
		switch what {
		case 0:
			err := w.Push("/x", nil)
			if variant == 1 {
				sym.Assert(err == nil && calls.push == 1, "Push is delegated exactly once")
			} else {
				sym.Assert(errors.Is(err, http.ErrNotSupported), "Push without support matches http.ErrNotSupported")
			}
		case 1:
			_, _, err := w.Hijack()
			if variant == 1 {
				sym.Assert(err == nil && calls.hijack == 1, "Hijack is delegated exactly once")
			} else {
				sym.Assert(errors.Is(err, http.ErrNotSupported), "Hijack without support matches http.ErrNotSupported")
			}
		case 2:
			err := w.SetReadDeadline(time.Time{})
			if variant == 1 {
				sym.Assert(err == nil && calls.rdl == 1, "SetReadDeadline is delegated exactly once")
			} else {
				sym.Assert(errors.Is(err, http.ErrNotSupported), "SetReadDeadline without support matches http.ErrNotSupported")
			}
		case 3:
			err := w.SetWriteDeadline(time.Time{})
			if variant == 1 {
				sym.Assert(err == nil && calls.wdl == 1, "SetWriteDeadline is delegated exactly once")
			} else {
				sym.Assert(errors.Is(err, http.ErrNotSupported), "SetWriteDeadline without support matches http.ErrNotSupported")
			}
		case 4:
			err := w.EnableFullDuplex()
			if variant == 1 {
				sym.Assert(err == nil && calls.duplex == 1, "EnableFullDuplex is delegated exactly once")
			} else {
				sym.Assert(errors.Is(err, http.ErrNotSupported), "EnableFullDuplex without support matches http.ErrNotSupported")
			}
		case 5: // Blob
			code := sym.Int("code", 200, 599)
			n := sym.Choose("n", 4)
			if sym.Bool("preset") {
				c.SetHeader("Content-Type", "text/preset") // e.g. a middleware default: the helper is given its own type
			}
			err := c.Blob(code, "application/x-test", []byte("xyz")[:n])
			sym.Assert(err == nil, "Blob succeeds")
			sym.Assert(len(g.finals) == 1 && g.finals[0] == code, "Blob sends exactly the given status")
			sym.Assert(g.hdr.Get("Content-Type") == "application/x-test", "Blob sends the given content type")
			sym.Assert(string(g.body) == "xyz"[:n], "Blob sends exactly the given bytes")
			checkRecorder(w, g, "after Blob")
		case 6: // Stream
			code := sym.Int("code", 200, 599)
			n := sym.Choose("n", 4)
			if sym.Bool("preset") {
				c.SetHeader("Content-Type", "text/preset")
			}
			err := c.Stream(code, "text/x-test", &source{data: []byte("xyz")[:n]})
			sym.Assert(err == nil, "Stream succeeds")
			sym.Assert(len(g.finals) == 1 && g.finals[0] == code, "Stream sends exactly the given status")
			sym.Assert(g.hdr.Get("Content-Type") == "text/x-test", "Stream sends the given content type")
			sym.Assert(string(g.body) == "xyz"[:n], "Stream sends exactly the bytes of the reader")
			checkRecorder(w, g, "after Stream")
		case 7: // String without verbs
			code := sym.Int("code", 200, 599)
			var err error
			wantBody := "hello"
			switch sym.Choose("format", 3) {
			case 0:
				err = c.String(code, "hello")
			case 1: // a format is a format whether or not values follow
				err = c.String(code, "100%% sure")
				wantBody = "100% sure"
			case 2:
				err = c.String(code, "%s-%d", "a", 7)
				wantBody = "a-7"
			}
			sym.Assert(err == nil, "String succeeds")
			sym.Assert(len(g.finals) == 1 && g.finals[0] == code, "String sends exactly the given status")
			sym.Assert(g.hdr.Get("Content-Type") == fox.MIMETextPlainCharsetUTF8, "String defaults the content type to text/plain")
			sym.Assert(string(g.body) == wantBody, "String sends exactly the formatted text")
			checkRecorder(w, g, "after String")
		case 8: // Redirect
			code := sym.Int("code", 0, 999)
			err := c.Redirect(code, "/next")
			if code >= 300 && code <= 308 {
				sym.Cover("redirect accepted")
				sym.Assert(err == nil, "Redirect accepts codes 300..308")
				sym.Assert(len(g.finals) == 1 && g.finals[0] == code, "Redirect sends exactly the given status")
				sym.Assert(g.hdr.Get("Location") == "/next", "Redirect sends the Location")
			} else {
				sym.Cover("redirect refused")
				sym.Assert(errors.Is(err, fox.ErrInvalidRedirectCode), "Redirect refuses codes outside 300..308")
				sym.Assert(len(g.finals) == 0 && g.accepted == 0, "a refused Redirect sends nothing")
			}
		}
	}
	req := &http.Request{Method: "GET", URL: &url.URL{Path: "/w"}}
	s.r.ServeHTTP(newUnderlying(variant, g, calls), req)
}

var _ = io.EOF
