package harness

import (
	"errors"
	"net"
	"net/http"
	"net/url"

	"github.com/tigerwill90/fox"
	"verif/harness/sym"
)

var errResolve = errors.New("cannot resolve")

func fixedResolver(ip string) fox.ClientIPResolver {
	return fox.ClientIPResolverFunc(func(c fox.Context) (*net.IPAddr, error) {
		return &net.IPAddr{IP: net.ParseIP(ip)}, nil
	})
}

var failingResolver = fox.ClientIPResolverFunc(func(c fox.Context) (*net.IPAddr, error) { return nil, errResolve })

type c20State struct {
	sink     *logSink
	logged   *fox.Router // with the Logger middleware
	bare     *fox.Router // identical, without it
	behave   func(c fox.Context)
	resolver int
	kind     int
}

const (
	hkRoute = iota
	hkNoRoute
	hkNoMethod
	hkRedirect
	hkOptions
	nHandlerKinds
)

func c20Router(st *c20State, withLogger bool) *fox.Router {
	h := func(c fox.Context) { st.behave(c) }
	opts := []fox.GlobalOption{
		fox.WithNoRouteHandler(h), fox.WithNoMethodHandler(h), fox.WithOptionsHandler(h),
		fox.WithRedirectTrailingSlash(true),
	}
	switch st.resolver {
	case 1:
		opts = append(opts, fox.WithClientIPResolver(fixedResolver("198.51.100.7")))
	case 2, 3:
		opts = append(opts, fox.WithClientIPResolver(failingResolver))
	}
	if withLogger {
		opts = append(opts, fox.WithMiddleware(fox.LoggerWithHandler(captureHandler{st.sink})))
	}
	r, err := fox.New(opts...)
	if err != nil {
		panic(err)
	}
	var ropts []fox.RouteOption
	if st.resolver == 3 {
		ropts = append(ropts, fox.WithClientIPResolver(fixedResolver("203.0.113.9")))
	}
	if _, err := r.Handle("GET", "/r", h, ropts...); err != nil {
		panic(err)
	}
	if _, err := r.Handle("GET", "/t/", h, ropts...); err != nil {
		panic(err)
	}
	return r
}

func SetupC20Log() any {
	st := &c20State{sink: &logSink{}, resolver: sym.Param("resolver"), kind: sym.Param("kind")}
	st.logged = c20Router(st, true)
	st.bare = c20Router(st, false)
	return st
}

func c20Request(kind int) *http.Request {
	req := &http.Request{Method: "GET", Host: "example.com", RemoteAddr: "192.0.2.1:1234", URL: &url.URL{Path: "/r"}, Header: http.Header{}}
	switch kind {
	case hkNoRoute:
		req.URL.Path = "/nope"
	case hkNoMethod:
		req.Method = "POST"
	case hkRedirect:
		req.URL.Path = "/t"
	case hkOptions:
		req.Method = "OPTIONS"
	}
	return req
}

type respCapture struct {
	g *ghost
}

func serveCapture(r *fox.Router, req *http.Request) (g *ghost, panicked any) {
	g = &ghost{sc: &script{}, hdr: http.Header{}}
	panicked = panicsWith(func() { r.ServeHTTP(plainW{g}, req) })
	return
}

func serveCaptureRich(r *fox.Router, req *http.Request) (g *ghost, panicked any) {
	g = &ghost{sc: &script{}, hdr: http.Header{}}
	panicked = panicsWith(func() { r.ServeHTTP(richW{g, &capCalls{}}, req) })
	return
}

func sameGhost(a, b *ghost) bool {
	if len(a.finals) != len(b.finals) || a.accepted != b.accepted || a.infos != b.infos || string(a.body) != string(b.body) {
		return false
	}
	for i := range a.finals {
		if a.finals[i] != b.finals[i] {
			return false
		}
	}
	if len(a.hdr) != len(b.hdr) {
		return false
	}
	for k, v := range a.hdr {
		w := b.hdr[k]
		if len(v) != len(w) {
			return false
		}
		for i := range v {
			if v[i] != w[i] {
				return false
			}
		}
	}
	return true
}

// HarnessC20Log: the Logger middleware emits exactly one faithful record after the handler returns
// and never alters the response or a panic.
func HarnessC20Log(st any) {
	s := st.(*c20State)
	behaviour := sym.Choose("behaviour", 10)
	code := 200
	if behaviour == 0 || behaviour >= 6 {
		code = sym.Int("code", 100, 999)
	}
	handlerDone := 0
	s.behave = func(c fox.Context) {
		switch behaviour {
		case 0:
			c.Writer().WriteHeader(code)
		case 1:
			_, _ = c.Writer().Write([]byte("ok"))
		case 2:
			_ = c.Redirect(http.StatusFound, "/elsewhere")
		case 3:
			c.Writer().WriteHeader(http.StatusMovedPermanently) // a 3xx without Location
		case 4:
			// nothing written
		case 5:
			panic(injectedPanic{7})
		case 6:
			c.SetHeader("Location", "/preferred") // any status together with a Location header
			c.Writer().WriteHeader(code)
		case 7:
			// late error path: the response has started, the second status never reaches the client
			_, _ = c.Writer().Write([]byte("ok"))
			c.Writer().WriteHeader(code)
		case 8:
			c.Writer().WriteHeader(http.StatusCreated)
			c.Writer().WriteHeader(code) // superfluous
		case 9:
			// streaming style: flush first (sends the implicit 200), then a late status
			_ = c.Writer().FlushError()
			c.Writer().WriteHeader(code)
		}
		s.sink.seq++
		handlerDone = s.sink.seq
	}
	req := c20Request(s.kind)
	if s.kind == hkNoRoute && sym.ParamOr("raw", 0) == 1 {
		// a request whose escaped form differs from the default encoding of its path (RawPath set by net/http)
		req.URL.Path, req.URL.RawPath = "/nope/a/b", "/nope/a%2Fb"
		sym.Cover("request with RawPath")
	}
	serve := serveCapture
	if behaviour == 9 {
		serve = serveCaptureRich // a writer offering FlushError
	}
	// a quiet request to the route first: the context the request under test reuses has served a route
	// (with its own client IP resolver when resolver=3)
	quiet := behaviour
	behaviour = 4
	serveCapture(s.logged, c20Request(hkRoute))
	serveCapture(s.bare, c20Request(hkRoute))
	behaviour = quiet
	s.sink.recs, s.sink.seq = nil, 0
	handlerDone = 0
	g1, p1 := serve(s.logged, req)
	recs := s.sink.recs
	doneAt := handlerDone
	g2, p2 := serve(s.bare, req)

	// the middleware never alters the response or a panic passing through it
	sym.Assert(sameGhost(g1, g2), "response (status, headers, bytes) identical with and without the Logger middleware")
	if s.kind != hkRedirect && behaviour == 5 {
		sym.Cover("panic through logger")
		ip1, ok1 := p1.(injectedPanic)
		ip2, ok2 := p2.(injectedPanic)
		sym.Assert(ok1 && ok2 && ip1 == ip2, "a panic passes through the Logger middleware unchanged")
		sym.Assert(len(recs) == 0, "no record for a handler that did not return")
		return
	}
	sym.Assert(p1 == nil && p2 == nil, "no panic")
	sym.Assert(len(recs) == 1, "exactly one record per request whose handler returned")
	if len(recs) != 1 {
		return
	}
	rec := recs[0]
	if s.kind != hkRedirect {
		sym.Assert(rec.seq > doneAt && doneAt > 0, "the record is emitted after the handler returned")
	}
	// status actually recorded
	status := 200
	if len(g1.finals) > 0 {
		status = g1.finals[0]
	}
	got, ok := s.sink.get(rec, "status")
	sym.Assert(ok && got == any(status), "status attribute is the response status actually recorded")
	m, _ := s.sink.get(rec, "method")
	h, _ := s.sink.get(rec, "host")
	p, _ := s.sink.get(rec, "path")
	sym.Assert(m == any(req.Method) && h == any(req.Host) && p == any(req.URL.Path), "method, host and path attributes equal the request")
	// level by status class
	switch {
	case status >= 200 && status < 300:
		sym.Cover("2xx")
		sym.Assert(rec.level == 0, "2xx is logged at INFO")
	case status >= 300 && status < 400:
		sym.Cover("3xx")
		sym.Assert(rec.level == -4, "3xx is logged at DEBUG")
	case status >= 400 && status < 500:
		sym.Cover("4xx")
		sym.Assert(rec.level == 4, "4xx is logged at WARN")
	case status >= 500:
		sym.Cover("5xx")
		sym.Assert(rec.level == 8, "5xx is logged at ERROR")
	}
	// Location accompanies DEBUG records when the header is set
	loc, hasLoc := s.sink.get(rec, "location")
	wantLoc := g1.hdr.Get("Location")
	if status >= 300 && status < 400 && wantLoc != "" {
		sym.Cover("location logged")
		sym.Assert(hasLoc && loc == any(wantLoc), "3xx record carries the Location header")
	} else {
		sym.Assert(!hasLoc, "no location attribute otherwise")
	}
	// message: resolver IP, remote IP, or unknown
	wantMsg := "192.0.2.1"
	inRoute := s.kind == hkRoute
	switch s.resolver {
	case 1:
		wantMsg = "198.51.100.7"
	case 2:
		wantMsg = "unknown"
	case 3:
		if inRoute {
			wantMsg = "203.0.113.9"
		} else {
			wantMsg = "unknown"
		}
	}
	sym.Assert(rec.msg == wantMsg, "message is the resolver's client IP, the remote IP without resolver, or 'unknown' when resolution fails")
}

// ---- concurrent requests through one Logger -----------------------------------------------------

func SetupC20Conc() any {
	st := &c20State{sink: &logSink{}, resolver: 1, kind: hkRoute}
	st.logged = c20Router(st, true)
	return st
}

// HarnessC20Conc: two requests in flight through the same Logger-wrapped route handler: each record
// describes one request only, and the happens-before monitor sees no unordered conflicting access.
func HarnessC20Conc(st any) {
	s := st.(*c20State)
	sym.ThreadsPool(sym.Param("preempt")) // pool Get/Put are scheduling points: the two requests may overlap
	s.behave = func(c fox.Context) {
		if c.Host() == "a.example" {
			c.Writer().WriteHeader(http.StatusCreated)
		} else {
			c.Writer().WriteHeader(http.StatusNotFound)
		}
	}
	s.sink.recs = nil
	mk := func(host string) *http.Request {
		r := c20Request(hkRoute)
		r.Host = host
		return r
	}
	sym.Go(func() { serveCapture(s.logged, mk("a.example")) })
	sym.Go(func() { serveCapture(s.logged, mk("b.example")) })
	sym.Join()
	recs := s.sink.recs
	sym.Assert(len(recs) == 2, "one record per request")
	seenA, seenB := 0, 0
	for _, rec := range recs {
		h, _ := s.sink.get(rec, "host")
		st, _ := s.sink.get(rec, "status")
		p, _ := s.sink.get(rec, "path")
		switch h {
		case any("a.example"):
			seenA++
			sym.Assert(st == any(201) && rec.level == 0 && p == any("/r"), "the record of the first request carries its own status and level")
		case any("b.example"):
			seenB++
			sym.Assert(st == any(404) && rec.level == 4 && p == any("/r"), "the record of the second request carries its own status and level")
		}
	}
	sym.Assert(seenA == 1 && seenB == 1, "each request is reported once")
	sym.Cover("concurrent requests through the Logger")
}
