package harness

// H is one harness: an optional concrete Setup executed once, and Run executed per path.
type H struct {
	Setup func() any
	Run   func(any)
}

// Registry maps harness names to functions (native replay; the executor finds the same
// functions by name in the SSA program: Setup<Name> / Harness<Name>).
var Registry = map[string]H{}

func reg0(name string, f func()) { Registry[name] = H{Run: func(any) { f() }} }
func reg1(name string, s func() any, f func(any)) {
	Registry[name] = H{Setup: s, Run: f}
}

func init() {
	reg0("C17Clean", HarnessC17Clean)
	reg0("C17Long", HarnessC17Long)
	reg1("C01Agree", SetupC01Agree, HarnessC01Agree)
	reg1("C01Lookup", SetupC01Lookup, HarnessC01Lookup)
	reg1("C02History", SetupC02History, HarnessC02History)
	reg1("C03Snapshot", SetupC03Snapshot, HarnessC03Snapshot)
	reg1("C04Txn", SetupC04Txn, HarnessC04Txn)
	reg1("C05Conc", SetupC05Conc, HarnessC05Conc)
	reg0("C13Conc", HarnessC13Conc)
	reg1("C12Conc", SetupC12Conc, HarnessC12Conc)
	reg1("C06Parked", SetupC06Parked, HarnessC06Parked)
	reg1("C07Pair", SetupC07Pair, HarnessC07Pair)
	reg1("C08Dispatch", SetupC08Dispatch, HarnessC08Dispatch)
	reg1("C08Irrelevant", SetupC08Irrelevant, HarnessC08Irrelevant)
	reg1("C08Tsr", SetupC08Tsr, HarnessC08Tsr)
	reg1("C11Serve", SetupC11Serve, HarnessC11Serve)
	reg1("C14Seq", SetupC14Seq, HarnessC14Seq)
	reg1("C12History", SetupC12History, HarnessC12History)
	reg0("C13Chain", HarnessC13Chain)
	reg0("C18Ranges", HarnessC18Ranges)
	reg0("C18Designate", HarnessC18Designate)
	reg0("C18Single", HarnessC18Single)
	reg0("C18Prefix", HarnessC18Prefix)
	reg0("C18Crash", HarnessC18Crash)
	reg0("C19Options", HarnessC19Options)
	reg0("C19ClientIP", HarnessC19ClientIP)
	reg1("C14AB", SetupC14AB, HarnessC14AB)
	reg1("C14Caps", SetupC14Caps, HarnessC14Caps)
	reg1("C20Log", SetupC20Log, HarnessC20Log)
	reg1("C15Panic", SetupC15Panic, HarnessC15Panic)
	reg1("C10HostLimits", SetupC10HostLimits, HarnessC10HostLimits)
	reg1("C20Conc", SetupC20Conc, HarnessC20Conc)
	reg1("C15Redact", SetupC15Redact, HarnessC15Redact)
	reg1("C15Txn", SetupC15Txn, HarnessC15Txn)
	reg1("C16Alloc", SetupC16Alloc, HarnessC16Alloc)
	reg1("C09Host", SetupC09Host, HarnessC09Host)
	reg0("C10Round", HarnessC10Round)
	reg1("C10Segments", SetupC10Segments, HarnessC10Segments)
	reg1("C10Parse", SetupC10Parse, HarnessC10Parse)
}
