package harness

import (
	"net/http"
	"net/url"

	"github.com/tigerwill90/fox"
	"verif/harness/sym"
)

type lookupState struct {
	set    RouteSet
	r      *fox.Router
	ref    *refRouter
	routes []*fox.Route
}

func buildRouter(set RouteSet, opts ...fox.GlobalOption) (*fox.Router, []*fox.Route) {
	r, err := fox.New(opts...)
	if err != nil {
		panic(err)
	}
	var routes []*fox.Route
	for _, rt := range set.Routes {
		route, err := r.Handle(rt.Method, rt.Pattern, noopHandler)
		if err != nil {
			panic("corpus set " + set.Name + ": " + rt.Pattern + ": " + err.Error())
		}
		routes = append(routes, route)
	}
	return r, routes
}

func corpusSet(i int) RouteSet {
	if i < len(CorpusHand) {
		return CorpusHand[i]
	}
	return CorpusGen[i-len(CorpusHand)]
}

func SetupC01Lookup() any {
	set := corpusSet(sym.Param("set"))
	r, routes := buildRouter(set)
	return &lookupState{set: set, r: r, ref: newRefRouter(set), routes: routes}
}

func hasEmptySegment(p string) bool {
	for i := 0; i+1 < len(p); i++ {
		if p[i] == '/' && p[i+1] == '/' {
			return true
		}
	}
	return false
}

func collectParams(c fox.Context) []kv {
	var out []kv
	for p := range c.Params() {
		out = append(out, kv{p.Key, p.Value})
	}
	return out
}

func sameParams(a, b []kv) bool {
	if len(a) != len(b) {
		return false
	}
	for i := range a {
		if a[i].k != b[i].k || a[i].v != b[i].v {
			return false
		}
	}
	return true
}

// HarnessC01Lookup: Router.Lookup selects the route R-match prescribes, with its parameters.
func HarnessC01Lookup(st any) {
	s := st.(*lookupState)
	method := s.set.Routes[0].Method
	lh := sym.Param("lh")
	if lh > 0 && s.ref.method(method).hostTrie == nil {
		return // Host is irrelevant for a method without hostname routes: covered by lh=0 and by C09
	}
	host := sym.String("host", lh)
	lp := sym.Param("lp")
	path := "/" + sym.String("path", lp-1)
	sym.Assume(!hasEmptySegment(path))
	req := &http.Request{Method: method, Host: host, URL: &url.URL{Path: path}}

	// the same request twice: the second answer comes from a recycled context and must be identical
	r0, c0, t0 := s.r.Lookup(nil, req)
	var p0 []kv
	if c0 != nil {
		p0 = collectParams(c0)
		c0.Close()
	}
	// (twice more first: whichever pooled context the runtime hands out next has then served this request before)
	for k := 0; k < 2; k++ {
		rk, ck, tk := s.r.Lookup(nil, req)
		sym.Assert(r0 == rk && t0 == tk, "the same request gives the same answer on a recycled context")
		if ck != nil {
			sym.Assert(c0 != nil && sameParams(p0, collectParams(ck)), "the same request gives the same parameters on a recycled context")
			ck.Close()
		}
	}
	rte, cc, tsr := s.r.Lookup(nil, req)
	sym.Assert(r0 == rte && t0 == tsr, "the same request gives the same answer on a recycled context")
	if cc != nil && c0 != nil {
		sym.Assert(sameParams(p0, collectParams(cc)), "the same request gives the same parameters on a recycled context")
	}
	want := s.ref.lookup(method, host, path, true)
	if want.ambiguous {
		sym.Cover("ambiguous (don't care)")
		if cc != nil {
			cc.Close()
		}
		return
	}
	if want.route == nil || want.tsr {
		// (which trailing-slash recommendation, if any, is C08's obligation)
		sym.Cover("no direct match")
		sym.Assert(rte == nil || tsr, "no direct match expected")
		if cc != nil {
			cc.Close()
		}
		return
	}
	sym.Cover("direct match")
	if want.viaHost {
		sym.Cover("matched via hostname")
	}
	if want.backtracks >= 1 {
		sym.Cover("one backtrack")
	}
	if want.backtracks >= 2 {
		sym.Cover("two backtracks")
	}
	sym.Assert(rte != nil && !tsr, "direct match expected")
	if rte == nil || tsr {
		if cc != nil {
			cc.Close()
		}
		return
	}
	sym.Assert(rte.Pattern() == want.route.pattern, "selected route is the one the priority rules prescribe")
	if rte.Pattern() != want.route.pattern {
		cc.Close()
		return
	}
	got := collectParams(cc)
	sub, ok := substitute(rte.Pattern(), got)
	sym.Assert(ok, "parameters are reported under the pattern's names in pattern order")
	if ok {
		h, _ := refStripHost(host)
		target := path
		if want.viaHost {
			target = h + path
		}
		sym.Assert(sub == target, "substituting the parameters into the pattern reproduces the request")
	}
	if !want.infix {
		sym.Assert(sameParams(got, want.params), "parameter values are the documented captures")
	} else {
		sym.Cover("infix catch-all matched")
	}
	cc.Close()
}
