package harness

import (
	"errors"

	"github.com/tigerwill90/fox"
	"verif/harness/sym"
)

func SetupC04Txn() any { return SetupC02History() }

var errInjected = errors.New("injected failure")

type injectedPanic struct{ n int }

// panicsWith runs f and returns the recovered value (nil if f returned).
func panicsWith(f func()) (v any) {
	defer func() { v = recover() }()
	f()
	return nil
}

const (
	endCommit = iota
	endAbort
	endUpdatesOK
	endUpdatesError
	endUpdatesPanic
	nEndings
)

// HarnessC04Txn: a write transaction reads its own writes, nobody else sees them before Commit, and
// Commit / Abort / returned error / panic publish all or none of them.
func HarnessC04Txn(st any) {
	s := st.(*c02State)
	k := sym.Param("k")
	np := sym.Param("pool")
	ending := sym.Choose("ending", nEndings)
	pre := s.model.clone()
	model := s.model.clone()
	var probes []mentry
	j := k
	if ending == endUpdatesError || ending == endUpdatesPanic {
		j = sym.Int("j", 0, k) // the failure is injected after j operations
	}
	dontCare := false
	var held *fox.Txn
	body := func(txn *fox.Txn) error {
		held = txn
		for step := 0; step < k; step++ {
			if step == j {
				break
			}
			kind := sym.Choose("kind"+string(rune('0'+step)), nOps)
			method := c02Methods[sym.Choose("m"+string(rune('0'+step)), 2)]
			pattern := c02Pool[sym.ParamOr("poolfrom", 0)+sym.Choose("p"+string(rune('0'+step)), np)]
			probes = append(probes, mentry{method: method, pattern: pattern})
			if !applyOp(s.r, txn, txn, model, kind, method, pattern) {
				dontCare = true
				return errInjected
			}
			// isolation: the transaction reads its own writes, the router still shows the old state
			checkObsOpt(txn, model, probes, "txn (own writes)", sym.ParamOr("iter", 1) == 1)
			checkObs(s.r, pre, probes, "router while the transaction is open")
			// a reader opened now sees the old state, too
			ro := s.r.Txn(false)
			sym.Assert(ro.Len() == len(pre.ents), "read-only transaction opened during a write transaction sees the committed state")
			ro.Abort()
		}
		if sym.ParamOr("snap", 0) == 1 {
			// a snapshot of the write transaction is a read-only view: it refuses writes, and settling it
			// neither publishes nor releases anything of its parent
			snap := txn.Snapshot()
			_, e1 := snap.Handle("GET", "/via/snapshot", noopHandler)
			_, e2 := snap.Delete("GET", "/via/snapshot")
			e3 := snap.Truncate()
			sym.Assert(errors.Is(e1, fox.ErrReadOnlyTxn) && errors.Is(e2, fox.ErrReadOnlyTxn) && errors.Is(e3, fox.ErrReadOnlyTxn), "a snapshot of a write transaction refuses writes with ErrReadOnlyTxn")
			checkObsOpt(snap, model, probes, "snapshot of the write transaction", false)
			if sym.Bool("snapcommit") {
				snap.Commit()
			} else {
				snap.Abort()
			}
			checkObs(s.r, pre, probes, "router after the snapshot was settled")
			blocked := sym.WouldBlock(func() { _, _ = s.r.Handle("GET", "/second/writer", noopHandler) })
			sym.Assert(blocked, "the parent still holds the writer lock after its snapshot was settled")
			checkObsOpt(txn, model, probes, "txn after its snapshot was settled", false)
			sym.Cover("snapshot of a write transaction settled")
		}
		switch ending {
		case endUpdatesError:
			return errInjected
		case endUpdatesPanic:
			panic(injectedPanic{j})
		}
		return nil
	}

	committed := false
	switch ending {
	case endCommit, endAbort:
		txn := s.r.Txn(true)
		if err := body(txn); err != nil {
			txn.Abort()
			return
		}
		if ending == endCommit {
			txn.Commit()
			committed = true
			sym.Cover("explicit commit")
		} else {
			txn.Abort()
			sym.Cover("explicit abort")
		}
	case endUpdatesOK:
		err := s.r.Updates(body)
		if dontCare {
			return
		}
		sym.Assert(err == nil, "Updates returns nil when fn returns nil")
		committed = true
		sym.Cover("managed commit")
	case endUpdatesError:
		err := s.r.Updates(body)
		if dontCare {
			return
		}
		sym.Assert(err == errInjected, "Updates returns the error of fn")
		sym.Cover("managed: error returned")
	case endUpdatesPanic:
		var uerr error
		v := panicsWith(func() { uerr = s.r.Updates(body) })
		if dontCare {
			return
		}
		_ = uerr
		ip, ok := v.(injectedPanic)
		sym.Assert(ok && ip.n == j, "a panic inside Updates is re-raised unchanged")
		sym.Cover("managed: panic")
	}
	// atomic publication
	if committed {
		checkObs(s.r, model, probes, "router after commit")
	} else {
		checkObs(s.r, pre, probes, "router after abort / error / panic")
	}
	// the settled transaction refuses further use; Commit/Abort again are no-ops
	v := panicsWith(func() { held.Has("GET", "/") })
	e, isErr := v.(error)
	sym.Assert(isErr && errors.Is(e, fox.ErrSettledTxn), "a settled transaction panics with ErrSettledTxn on use")
	v = panicsWith(func() { _, _ = held.Handle("GET", "/zz", noopHandler) })
	e, isErr = v.(error)
	sym.Assert(isErr && errors.Is(e, fox.ErrSettledTxn), "a settled transaction refuses writes")
	sym.Assert(panicsWith(func() { held.Commit(); held.Abort() }) == nil, "Commit/Abort on a settled transaction are no-ops")
	if committed {
		checkObs(s.r, model, probes, "router after a second Commit/Abort")
	} else {
		checkObs(s.r, pre, probes, "router after a second Commit/Abort")
	}
	// the router accepts a new write transaction (the writer lock was released exactly once)
	t2 := s.r.Txn(true)
	sym.Assert(t2.Len() == s.r.Len(), "a new write transaction starts from the committed state")
	t2.Abort()
	sym.Cover("new write transaction opened")

	// writing through a read-only transaction
	cur := pre
	if committed {
		cur = model
	}
	ro := s.r.Txn(false)
	_, err := ro.Handle("GET", "/zz", noopHandler)
	sym.Assert(errors.Is(err, fox.ErrReadOnlyTxn), "Handle on a read-only transaction is ErrReadOnlyTxn")
	_, err = ro.Update("GET", "/a", noopHandler)
	sym.Assert(errors.Is(err, fox.ErrReadOnlyTxn), "Update on a read-only transaction is ErrReadOnlyTxn")
	_, err = ro.Delete("GET", "/a")
	sym.Assert(errors.Is(err, fox.ErrReadOnlyTxn), "Delete on a read-only transaction is ErrReadOnlyTxn")
	sym.Assert(errors.Is(ro.Truncate(), fox.ErrReadOnlyTxn), "Truncate on a read-only transaction is ErrReadOnlyTxn")
	sym.Assert(errors.Is(ro.HandleRoute("GET", nil), fox.ErrReadOnlyTxn), "HandleRoute on a read-only transaction is ErrReadOnlyTxn")
	sym.Assert(errors.Is(ro.UpdateRoute("GET", nil), fox.ErrReadOnlyTxn), "UpdateRoute on a read-only transaction is ErrReadOnlyTxn")
	checkObs(ro, cur, probes, "read-only transaction after refused writes")
	ro.Commit()
	ro.Abort()
	checkObs(s.r, cur, probes, "router after refused writes")
}
