package harness

// R-match / R-tsr: reference routing model. An UNCOMPRESSED trie over pattern tokens matched by
// priority depth-first search: static byte, then {param}, then *{catch-all}; hostname routes first,
// path-only routes as fallback. Shares no code with fox (no radix compression, no skipped-node
// stack, no precomputed infix nodes).

type kv struct{ k, v string }

type refRoute struct {
	method  string
	pattern string
	idx     int // index in the set
}

type tnode struct {
	sKeys     []byte
	sKids     []*tnode
	param     *tnode
	paramName string
	catch     *tnode
	catchName string
	boundary  *tnode // end of hostname, start of path
	route     *refRoute
}

type refMethod struct {
	name     string
	hostTrie *tnode // routes with hostname (nil if none)
	pathTrie *tnode // path-only routes (nil if none)
}

type refRouter struct {
	methods []*refMethod
	routes  []*refRoute
}

func (r *refRouter) method(m string) *refMethod {
	for _, x := range r.methods {
		if x.name == m {
			return x
		}
	}
	return nil
}

func (n *tnode) staticChild(c byte, create bool) *tnode {
	for i, k := range n.sKeys {
		if k == c {
			return n.sKids[i]
		}
	}
	if !create {
		return nil
	}
	ch := &tnode{}
	n.sKeys = append(n.sKeys, c)
	n.sKids = append(n.sKids, ch)
	return ch
}

// insert adds pattern text s (host or path part) below n and returns the end node.
func trieInsert(n *tnode, s string) *tnode {
	i := 0
	for i < len(s) {
		c := s[i]
		switch {
		case c == '{':
			j := i + 1
			for s[j] != '}' {
				j++
			}
			if n.param == nil {
				n.param = &tnode{}
				n.paramName = s[i+1 : j]
			}
			n = n.param
			i = j + 1
		case c == '*' && i+1 < len(s) && s[i+1] == '{':
			j := i + 2
			for s[j] != '}' {
				j++
			}
			if n.catch == nil {
				n.catch = &tnode{}
				n.catchName = s[i+2 : j]
			}
			n = n.catch
			i = j + 1
		default:
			n = n.staticChild(c, true)
			i++
		}
	}
	return n
}

func newRefRouter(set RouteSet) *refRouter {
	r := &refRouter{}
	for idx, rt := range set.Routes {
		m := r.method(rt.Method)
		if m == nil {
			m = &refMethod{name: rt.Method}
			r.methods = append(r.methods, m)
		}
		rr := &refRoute{method: rt.Method, pattern: rt.Pattern, idx: idx}
		r.routes = append(r.routes, rr)
		slash := 0
		for rt.Pattern[slash] != '/' {
			slash++
		}
		if slash == 0 {
			if m.pathTrie == nil {
				m.pathTrie = &tnode{}
			}
			trieInsert(m.pathTrie, rt.Pattern).route = rr
		} else {
			if m.hostTrie == nil {
				m.hostTrie = &tnode{}
			}
			h := trieInsert(m.hostTrie, rt.Pattern[:slash])
			if h.boundary == nil {
				h.boundary = &tnode{}
			}
			trieInsert(h.boundary, rt.Pattern[slash:]).route = rr
		}
	}
	return r
}

type matchRes struct {
	route      *refRoute
	params     []kv
	ambiguous  bool // a don't-care region was touched on the way to this verdict
	infix      bool // an infix catch-all (followed by further pattern text) took part
	backtracks int
}

type matcher struct {
	host, path string
	ambiguous  bool
	backtracks int
}

func hasKids(n *tnode) bool {
	return len(n.sKids) > 0 || n.param != nil || n.catch != nil
}

// match runs the priority DFS. inHost selects the input part and the parameter delimiter.
func (m *matcher) match(n *tnode, pos int, inHost bool, params []kv) (*refRoute, []kv, bool) {
	in := m.path
	delim := byte('/')
	if inHost {
		in = m.host
		delim = '.'
	}
	if pos == len(in) {
		if inHost {
			if n.boundary != nil {
				return m.match(n.boundary, 0, false, params)
			}
			return nil, nil, false
		}
		if n.route != nil {
			return n.route, params, false
		}
		return nil, nil, false
	}
	c := in[pos]
	tried := false
	// 1. static
	for k := range n.sKeys {
		if n.sKeys[k] == c {
			tried = true
			if r, p, inf := m.match(n.sKids[k], pos+1, inHost, params); r != nil {
				return r, p, inf
			}
			break
		}
	}
	// 2. named parameter: maximal non-empty run up to the delimiter
	if n.param != nil {
		end := pos
		for end < len(in) && in[end] != delim {
			end++
		}
		if end > pos {
			if tried {
				m.backtracks++
			}
			tried = true
			np := append(params[:len(params):len(params)], kv{n.paramName, in[pos:end]})
			if r, p, inf := m.match(n.param, end, inHost, np); r != nil {
				return r, p, inf
			}
		}
	}
	// 3. catch-all (path only)
	if n.catch != nil && !inHost {
		if tried {
			m.backtracks++
		}
		if c == '/' {
			// value would start with '/': only documented for the suffix form; don't-care
			m.ambiguous = true
			return nil, nil, false
		}
		if hasKids(n.catch) {
			// infix: split at every following '/', left to right
			for k := pos + 1; k < len(in); k++ {
				if in[k] == '/' {
					np := append(params[:len(params):len(params)], kv{n.catchName, in[pos:k]})
					if r, p, _ := m.match(n.catch, k, false, np); r != nil {
						return r, p, true
					}
				}
			}
		}
		if n.catch.route != nil {
			np := append(params[:len(params):len(params)], kv{n.catchName, in[pos:]})
			return n.catch.route, np, false
		}
	}
	return nil, nil, false
}

// refStripHost removes ":port" and one trailing dot; ok=false for forms the documentation does not
// pin down (brackets, several colons).
func refStripHost(h string) (string, bool) {
	colons := 0
	last := -1
	for i := 0; i < len(h); i++ {
		if h[i] == ':' {
			colons++
			last = i
		}
		if h[i] == '[' || h[i] == ']' {
			return "", false
		}
	}
	if colons > 1 {
		return "", false
	}
	if colons == 1 {
		h = h[:last]
	}
	if len(h) > 0 && h[len(h)-1] == '.' {
		h = h[:len(h)-1]
	}
	return h, true
}

func toggleSlash(p string) string {
	if len(p) > 1 && p[len(p)-1] == '/' {
		return p[:len(p)-1]
	}
	return p + "/"
}

type lookupRes struct {
	route      *refRoute
	params     []kv
	tsr        bool
	ambiguous  bool
	infix      bool
	viaHost    bool
	backtracks int
}

// lookup implements the documented selection for one method.
func (r *refRouter) lookup(method, hostHeader, path string, withTsr bool) lookupRes {
	m := r.method(method)
	if m == nil {
		return lookupRes{}
	}
	mt := &matcher{path: path}
	if m.hostTrie != nil {
		host, ok := refStripHost(hostHeader)
		if !ok {
			return lookupRes{ambiguous: true}
		}
		if host != "" {
			mt.host = host
			if rt, ps, inf := mt.match(m.hostTrie, 0, true, nil); rt != nil {
				return lookupRes{route: rt, params: ps, infix: inf, viaHost: true, ambiguous: mt.ambiguous, backtracks: mt.backtracks}
			}
			if mt.ambiguous {
				return lookupRes{ambiguous: true}
			}
			if withTsr && path != "/" {
				m2 := &matcher{host: host, path: toggleSlash(path)}
				if rt, ps, inf := m2.match(m.hostTrie, 0, true, nil); rt != nil {
					return lookupRes{route: rt, params: ps, infix: inf, tsr: true, viaHost: true, ambiguous: m2.ambiguous}
				}
				if m2.ambiguous {
					return lookupRes{ambiguous: true}
				}
			}
		}
	}
	if m.pathTrie == nil {
		return lookupRes{}
	}
	mt = &matcher{path: path}
	if rt, ps, inf := mt.match(m.pathTrie, 0, false, nil); rt != nil {
		return lookupRes{route: rt, params: ps, infix: inf, ambiguous: mt.ambiguous, backtracks: mt.backtracks}
	}
	if mt.ambiguous {
		return lookupRes{ambiguous: true}
	}
	if withTsr && path != "/" {
		m2 := &matcher{path: toggleSlash(path)}
		if rt, ps, inf := m2.match(m.pathTrie, 0, false, nil); rt != nil {
			return lookupRes{route: rt, params: ps, infix: inf, tsr: true, ambiguous: m2.ambiguous}
		}
		if m2.ambiguous {
			return lookupRes{ambiguous: true}
		}
	}
	return lookupRes{}
}

// substitute replaces the wildcards of pattern by values in order; ok=false if names/arity differ.
func substitute(pattern string, ps []kv) (string, bool) {
	out := ""
	pi := 0
	i := 0
	for i < len(pattern) {
		c := pattern[i]
		if c == '{' || (c == '*' && i+1 < len(pattern) && pattern[i+1] == '{') {
			j := i
			if c == '*' {
				j++
			}
			e := j + 1
			for pattern[e] != '}' {
				e++
			}
			name := pattern[j+1 : e]
			if pi >= len(ps) || ps[pi].k != name {
				return "", false
			}
			out += ps[pi].v
			pi++
			i = e + 1
			continue
		}
		out += pattern[i : i+1]
		i++
	}
	if pi != len(ps) {
		return "", false
	}
	return out, true
}
