package harness

import (
	"errors"
	"net/http"
	"net/url"

	"github.com/tigerwill90/fox"
	"verif/harness/sym"
)

// ---------------------------------------------------------------------------------------------
// R-grammar: recogniser of the documented pattern grammar (three-valued).

type verdict int

const (
	gReject verdict = iota
	gAccept
	gDontCare
)

type gram struct {
	v         verdict
	wildcards int
	hostEnd   int // index of the '/' that ends the hostname (0 = no hostname)
}

func isLetter(c byte) bool { return 'a' <= c && c <= 'z' || 'A' <= c && c <= 'Z' }
func isDigit(c byte) bool  { return '0' <= c && c <= '9' }

// parseName parses "{name}" starting at s[i]=='{'; returns index after '}' or -1.
// Names are non-empty and contain none of '/', '{', '*', '}' (nor stop when given).
func parseName(s string, i int, stop byte, maxKey int) int {
	j := i + 1
	for j < len(s) && s[j] != '}' {
		c := s[j]
		if c == '/' || c == '{' || c == '*' || (stop != 0 && c == stop) {
			return -1
		}
		j++
	}
	if j >= len(s) || j == i+1 {
		return -1
	}
	if j-(i+1) > maxKey {
		return -1
	}
	return j + 1
}

// refGrammar decides whether p is a valid pattern under the limits.
func refGrammar(p string, maxParams, maxKey int) gram {
	slash := -1
	for i := 0; i < len(p); i++ {
		if p[i] == '/' {
			slash = i
			break
		}
	}
	if slash < 0 {
		return gram{v: gReject}
	}
	dontCare := false
	wild := 0
	// ---- hostname -------------------------------------------------------------------------
	if slash > 0 {
		host := p[:slash]
		total := 0
		anyNonNumeric := false
		lastLabelNumeric := false
		i := 0
		for {
			// one label: static* [ {name} ]
			start := i
			static := 0
			labelNonNumeric := false
			hasParam := false
			for i < len(host) && host[i] != '.' {
				c := host[i]
				switch {
				case c == '{':
					e := parseName(host, i, '.', maxKey)
					if e < 0 {
						return gram{v: gReject}
					}
					// must be at the end of the label
					if e < len(host) && host[e] != '.' {
						return gram{v: gReject}
					}
					if i > start && host[i-1] == '-' {
						dontCare = true // hyphen directly before a parameter
					}
					wild++
					hasParam = true
					labelNonNumeric = true
					i = e
				case c == '*':
					return gram{v: gReject} // no catch-all in hostnames
				case isLetter(c):
					labelNonNumeric = true
					static++
					i++
				case isDigit(c):
					static++
					i++
				case c == '-':
					if i == start {
						return gram{v: gReject} // leading hyphen
					}
					if i+1 == len(host) || host[i+1] == '.' {
						return gram{v: gReject} // trailing hyphen
					}
					labelNonNumeric = true
					static++
					i++
				case c == '_':
					dontCare = true
					labelNonNumeric = true
					static++
					i++
				default:
					return gram{v: gReject}
				}
			}
			if i == start {
				return gram{v: gReject} // empty label (leading, trailing or double dot)
			}
			if static > 63 {
				return gram{v: gReject}
			}
			total += static
			if labelNonNumeric {
				anyNonNumeric = true
			}
			lastLabelNumeric = !labelNonNumeric && !hasParam
			if i >= len(host) {
				break
			}
			i++ // the dot
			total++
			if i >= len(host) {
				return gram{v: gReject} // trailing dot
			}
		}
		if total > 255 {
			return gram{v: gReject}
		}
		if !anyNonNumeric {
			return gram{v: gReject} // all numeric
		}
		if lastLabelNumeric {
			dontCare = true // numeric last label beside non-numeric ones
		}
	}
	// ---- path -----------------------------------------------------------------------------
	i := slash
	prevCatchAll := false // previous segment ended with a catch-all and nothing but '/' since
	for i < len(p) {
		// p[i] == '/'
		i++
		segStart := i
		sawWildcard := false
		thisCatchAll := false
		for i < len(p) && p[i] != '/' {
			c := p[i]
			switch c {
			case '{':
				e := parseName(p, i, 0, maxKey)
				if e < 0 {
					return gram{v: gReject}
				}
				if e < len(p) && p[e] != '/' {
					return gram{v: gReject}
				}
				wild++
				sawWildcard = true
				i = e
			case '*':
				if i+1 >= len(p) || p[i+1] != '{' {
					return gram{v: gReject}
				}
				e := parseName(p, i+1, 0, maxKey)
				if e < 0 {
					return gram{v: gReject}
				}
				if e < len(p) && p[e] != '/' {
					return gram{v: gReject}
				}
				if prevCatchAll && i == segStart {
					return gram{v: gReject} // two catch-alls separated only by a slash
				}
				wild++
				sawWildcard = true
				thisCatchAll = true
				i = e
			default:
				i++
			}
		}
		_ = sawWildcard
		prevCatchAll = thisCatchAll
	}
	if wild > maxParams {
		return gram{v: gReject}
	}
	if dontCare {
		return gram{v: gDontCare}
	}
	h := 0
	if slash > 0 {
		h = slash
	}
	return gram{v: gAccept, wildcards: wild, hostEnd: h}
}

// ---------------------------------------------------------------------------------------------

type c10State struct {
	r      *fox.Router
	mp, mk int
}

func noopHandler(c fox.Context) {}

var c10Limits = [][2]int{{65535, 65535}, {1, 1}, {2, 3}}

func SetupC10Parse() any {
	cfg := c10Limits[sym.Param("limits")]
	r, err := fox.New(fox.WithMaxRouteParams(uint16(cfg[0])), fox.WithMaxRouteParamKeyBytes(uint16(cfg[1])))
	if err != nil {
		panic(err)
	}
	return &c10State{r: r, mp: cfg[0], mk: cfg[1]}
}

// HarnessC10Parse: NewRoute accepts p iff the grammar does; accessors are consistent; no panic.
func HarnessC10Parse(st any) {
	s := st.(*c10State)
	n := sym.Param("n")
	p := sym.String("p", n)
	rte, err := s.r.NewRoute(p, noopHandler)
	want := refGrammar(p, s.mp, s.mk)
	if want.v == gDontCare {
		sym.Cover("dont-care region")
		return
	}
	if want.v == gAccept {
		sym.Cover("accepted")
		sym.Assert(err == nil && rte != nil, "pattern valid per grammar must be accepted")
		if err != nil {
			return
		}
		sym.Assert(rte.Pattern() == p, "Pattern() returns the registered pattern")
		sym.Assert(rte.ParamsLen() == want.wildcards, "ParamsLen() == number of wildcards")
		sym.Assert(rte.Hostname()+rte.Path() == p, "Hostname()+Path() == Pattern()")
		sym.Assert(len(rte.Hostname()) == want.hostEnd, "Hostname() is the part before the first slash")
		if want.hostEnd > 0 {
			sym.Cover("accepted with hostname")
		}
		if want.wildcards > 0 {
			sym.Cover("accepted with wildcard")
		}
		return
	}
	sym.Cover("rejected")
	sym.Assert(err != nil, "pattern invalid per grammar must be rejected")
	if err != nil {
		sym.Assert(errors.Is(err, fox.ErrInvalidRoute), "rejection is ErrInvalidRoute")
		sym.Assert(rte == nil, "no route on error")
	}
}

// HarnessC10Round: every accepted pattern is routable: as the only route, a request formed by
// substituting non-empty values for its wildcards is routed to it, the reported values reproduce the
// request, and they are the substituted values when no catch-all is followed by further text.
func HarnessC10Round() {
	n := sym.Param("n")
	p := sym.String("p", n)
	g := refGrammar(p, 65535, 65535)
	if g.v != gAccept {
		return
	}
	c10RoundTrip(p, g, false)
}

// c10RoundTrip registers p as the only route and routes the request obtained by substituting values
// (symbolic ones of 1..2 / 1..3 bytes, or fixed ones when concrete is set) for its wildcards.
func c10RoundTrip(p string, g gram, concrete bool) {
	var opts []fox.GlobalOption
	if concrete {
		opts = append(opts, fox.WithIgnoreTrailingSlash(true)) // for the served variant at the end
	}
	r, err := fox.New(opts...)
	if err != nil {
		panic(err)
	}
	var servedPs []kv
	served := false
	record := func(c fox.Context) { served, servedPs = true, collectParams(c) }
	rte, err := r.Handle("GET", p, record)
	sym.Assert(err == nil && rte != nil, "a pattern valid per the grammar registers on an empty router")
	if err != nil {
		return
	}
	if concrete {
		// the route is replaced in place once (Update), still the only route
		rte, err = r.Update("GET", p, record)
		sym.Assert(err == nil && rte != nil && r.Len() == 1, "the only route can be updated in place")
		if err != nil {
			return
		}
		// a neighbour extending the hostname (or the path) comes and goes: p is the only route again
		ext := p + "zz"
		if g.hostEnd > 0 {
			ext = p[:g.hostEnd] + "zz/"
		}
		if _, err := r.Handle("GET", ext, noopHandler); err == nil {
			_, err = r.Delete("GET", ext)
			sym.Assert(err == nil && r.Len() == 1, "the neighbour is deleted again")
			sym.Cover("round trip after a neighbour came and went")
		}
	}
	// build the request by substituting values
	toks := tokens(p)
	host, path := "", ""
	altHost, altPath := "", "" // the same request with other parameter values (concrete mode)
	var want []kv
	infixCatchAll := false
	sawCatch := false
	pos := 0 // byte position in the pattern, to know whether we are in the host part
	for ti, t := range toks {
		inHost := pos < g.hostEnd
		var piece string
		switch t.kind {
		case tkStatic:
			piece = p[pos : pos+1]
			pos++
			if sawCatch {
				infixCatchAll = true
			}
		case tkParam:
			v := "p" + string(rune('0'+ti%10))
			if !concrete {
				vl := 1 + sym.Choose("vl"+string(rune('0'+ti)), 2)
				v = sym.String("v"+string(rune('0'+ti)), vl)
			}
			for i := 0; i < len(v); i++ {
				if inHost {
					sym.Assume(v[i] != '.' && v[i] != ':' && v[i] != '[' && v[i] != ']' && v[i] != '/')
				} else {
					sym.Assume(v[i] != '/')
				}
			}
			piece = v
			want = append(want, kv{t.name, v})
			pos += len(t.name) + 2
			if sawCatch {
				infixCatchAll = true
			}
		case tkCatch:
			v := "q" + string(rune('0'+ti%10)) + "/r"
			if !concrete {
				vl := 1 + sym.Choose("vl"+string(rune('0'+ti)), 3)
				v = sym.String("v"+string(rune('0'+ti)), vl)
			}
			sym.Assume(v[0] != '/' && v[len(v)-1] != '/')
			sym.Assume(!hasEmptySegment(v))
			piece = v
			want = append(want, kv{t.name, v})
			pos += len(t.name) + 3
			sawCatch = true
		}
		altPiece := piece
		if concrete && t.kind != tkStatic {
			altPiece = "z" + piece[1:]
		}
		if inHost {
			host += piece
			altHost += altPiece
		} else {
			path += piece
			altPath += altPiece
		}
	}
	if hasEmptySegment(path) {
		return // static "//" in the pattern: outside the request domain of C01
	}
	req := &http.Request{Method: "GET", Host: host, URL: &url.URL{Path: path}}
	got, cc, tsr := r.Lookup(nil, req)
	sym.Cover("round trip attempted")
	if len(want) > 0 {
		sym.Cover("round trip with wildcards")
	}
	if g.hostEnd > 0 {
		sym.Cover("round trip with hostname")
	}
	sym.Assert(got == rte && !tsr && cc != nil, "the request built from the pattern is routed to it")
	if got != rte || cc == nil {
		return
	}
	ps := collectParams(cc)
	cc.Close()
	sub, ok := substitute(p, ps)
	sym.Assert(ok && sub == host+path, "the reported values reproduce the request when substituted back")
	if !infixCatchAll {
		sym.Assert(sameParams(ps, want), "the reported values are exactly the substituted ones")
	} else {
		sym.Cover("catch-all followed by further text")
	}
	if concrete && path != "/" {
		// the same through ServeHTTP on recycled contexts that last served a slash-toggled request with other parameter values
		w := &nullWriter{h: http.Header{}}
		toggled := &http.Request{Method: "GET", Host: altHost, URL: &url.URL{Path: toggleSlash(altPath)}}
		for k := 0; k < 3; k++ {
			r.ServeHTTP(w, toggled)
		}
		served, servedPs = false, nil
		r.ServeHTTP(w, req)
		sym.Assert(served && sameParams(servedPs, ps), "ServeHTTP serves the request with the same parameters")
		sym.Cover("round trip served after slash-toggled requests")
	}
}

var c10Segs = []string{"", "a", "{x}", "{}", "*{w}", "*{}", "a{x}", "a*{w}", "{x}a", "*{w}a", "{x", "*", "*w}", "{x}{y}", "{xyz}", "*{xyz}", "a}", "}{y}"}
var c10Hosts = []string{"", "b", "a.b", "{h}.b", "a.{h}", "{}.b", "a..b", "-a.b", "a-.b", "1.2", "a.*{h}", "{h}{g}.b", "a.b.", ".a"}

// HarnessC10Segments: patterns assembled from whole segments (reaches patterns far longer than the
// byte-wise bound): acceptance == grammar, under the three limit configurations.
func HarnessC10Segments(st any) {
	s := st.(*c10State)
	k := sym.Param("k")
	p := c10Hosts[sym.Choose("host", len(c10Hosts))]
	for i := 0; i < k; i++ {
		p += "/" + c10Segs[sym.Choose("seg"+string(rune('0'+i)), len(c10Segs))]
	}
	if sym.Bool("trailing") {
		p += "/"
	}
	if k == 0 && len(p) == 0 {
		return
	}
	rte, err := s.r.NewRoute(p, noopHandler)
	want := refGrammar(p, s.mp, s.mk)
	switch want.v {
	case gDontCare:
		return
	case gAccept:
		sym.Cover("segments: accepted")
		sym.Assert(err == nil && rte != nil, "pattern valid per grammar must be accepted (segment-built)")
		if err == nil {
			sym.Assert(rte.ParamsLen() == want.wildcards && rte.Hostname()+rte.Path() == p, "accessors consistent (segment-built)")
		}
		if s.mp == 65535 && err == nil {
			// routable as the only route (default limits: the fresh router of the round trip has them too)
			c10RoundTrip(p, want, true)
		}
	default:
		sym.Cover("segments: rejected")
		sym.Assert(err != nil && errors.Is(err, fox.ErrInvalidRoute), "pattern invalid per grammar must be rejected with ErrInvalidRoute (segment-built)")
	}
}

func SetupC10Segments() any { return SetupC10Parse() }

// ---- hostname length limits ------------------------------------------------------------------

func SetupC10HostLimits() any {
	r, err := fox.New()
	if err != nil {
		panic(err)
	}
	return &c10State{r: r, mp: 65535, mk: 65535}
}

func repeatByte(c byte, n int) string {
	b := make([]byte, n)
	for i := range b {
		b[i] = c
	}
	return string(b)
}

// HarnessC10HostLimits: hostnames around the 63-byte label and 255-byte total limits: nl full labels of
// 63 letters, then a label of l letters, then a fully symbolic window of w bytes, then "/".
func HarnessC10HostLimits(st any) {
	s := st.(*c10State)
	nl, l, w := sym.Param("nl"), sym.Param("l"), sym.Param("w")
	host := ""
	for i := 0; i < nl; i++ {
		host += repeatByte('a', 63) + "."
	}
	host += repeatByte('b', l) + sym.String("win", w)
	p := host + "/"
	rte, err := s.r.NewRoute(p, noopHandler)
	want := refGrammar(p, s.mp, s.mk)
	switch want.v {
	case gDontCare:
		return
	case gAccept:
		sym.Cover("long hostname accepted")
		sym.Assert(err == nil && rte != nil && rte.Hostname()+rte.Path() == p && len(rte.Hostname()) == want.hostEnd, "hostname within the 63/255 limits must be accepted")
	default:
		sym.Cover("long hostname rejected")
		sym.Assert(err != nil && errors.Is(err, fox.ErrInvalidRoute), "hostname beyond the 63/255 limits (or otherwise invalid) must be rejected with ErrInvalidRoute")
	}
}
