package harness

import (
	"net/http"
	"net/url"

	"github.com/tigerwill90/fox"
	"verif/harness/sym"
)

// c11Connect: the routes that would be registered under GET go under CONNECT instead (job parameter connect=1).
var c11Connect bool

func methodOf3(i int) string {
	if i == 5 {
		return "OPTIONS"
	}
	switch i % 3 {
	case 0:
		if c11Connect {
			return "CONNECT"
		}
		return "GET"
	case 1:
		return "POST"
	}
	return "FOO"
}

type c11State struct {
	set                    RouteSet // with methods assigned
	p                      *probeRouter
	ref                    *refRouter
	ignore                 map[string]bool // method+" "+pattern -> ignores trailing slash
	noMethod               bool
	autoOpts               bool
	methods                []string
	primeMethod, primePath string
	redirect               map[string]bool
	redirSeen              *served
}

func SetupC11Serve() any {
	base := corpusSet(sym.Param("set"))
	opts := sym.Param("opts")
	c11Connect = sym.ParamOr("connect", 0) == 1
	st := &c11State{ignore: map[string]bool{}, noMethod: opts&1 != 0, autoOpts: opts&2 != 0}
	st.redirect = map[string]bool{}
	st.redirSeen = &served{}
	// a middleware in redirect scope records what the context exposes inside the redirect handler
	redirMW := func(next fox.HandlerFunc) fox.HandlerFunc {
		return func(c fox.Context) {
			*st.redirSeen = served{hit: true, kind: "redirect", pattern: c.Pattern(), params: collectParams(c), scope: c.Scope()}
			if c.Route() != nil {
				st.redirSeen.pattern = "route:" + c.Route().Pattern()
			}
			next(c)
		}
	}
	st.p = newProbeRouter(fox.WithNoMethod(st.noMethod), fox.WithAutoOptions(st.autoOpts), fox.WithMiddlewareFor(fox.RedirectHandler, redirMW))
	for i, rt := range base.Routes {
		m := methodOf3(i)
		ign := i%3 == 0
		red := i%3 == 1 && sym.ParamOr("redir", 0) == 1
		st.set.Routes = append(st.set.Routes, R{m, rt.Pattern})
		st.ignore[m+" "+rt.Pattern] = ign
		st.redirect[m+" "+rt.Pattern] = red
		if red {
			mustHandle(st.p, m, rt.Pattern, fox.WithRedirectTrailingSlash(true))
		} else {
			mustHandle(st.p, m, rt.Pattern, fox.WithIgnoreTrailingSlash(ign))
		}
	}
	st.set.Name = base.Name
	st.ref = newRefRouter(st.set)
	for _, m := range st.ref.methods {
		st.methods = append(st.methods, m.name)
	}
	// a priming request served through an ignored trailing slash with parameters (leaves trailing-slash state
	// and parameters in the pooled context that the request under test will reuse)
	for _, rt := range st.set.Routes {
		if !st.ignore[rt.Method+" "+rt.Pattern] || rt.Pattern[0] != '/' {
			continue
		}
		ps := []kv{}
		for _, t := range tokens(rt.Pattern) {
			if t.kind != tkStatic {
				ps = append(ps, kv{t.name, "pv"})
			}
		}
		if len(ps) == 0 {
			continue
		}
		direct, _ := substitute(rt.Pattern, ps)
		cand := toggleSlash(direct)
		if how, _ := st.serves(rt.Method, "", cand); how == 2 {
			st.primeMethod, st.primePath = rt.Method, cand
			break
		}
	}
	return st
}

// serves reports how method m serves (host, path): 0 not, 1 directly, 2 by ignoring a trailing slash.
func (s *c11State) serves(m, host, path string) (int, lookupRes) {
	res := s.ref.lookup(m, host, path, true)
	if res.ambiguous || res.route == nil {
		return 0, res
	}
	if !res.tsr {
		return 1, res
	}
	if m == "CONNECT" && s.ignore[m+" "+res.route.pattern] {
		// no trailing-slash action is ever taken for a CONNECT request, yet the repository's own tests expect such a
		// route to be advertised in Allow: not decided by the statement (3 = either)
		return 3, res
	}
	if s.ignore[m+" "+res.route.pattern] {
		return 2, res
	}
	return 0, res
}

func splitAllow(h string) []string {
	var out []string
	cur := ""
	for i := 0; i < len(h); i++ {
		if h[i] == ',' {
			out = append(out, cur)
			cur = ""
			if i+1 < len(h) && h[i+1] == ' ' {
				i++
			}
			continue
		}
		cur += string(h[i])
	}
	if cur != "" || len(out) > 0 {
		out = append(out, cur)
	}
	return out
}

var c11ReqMethods = []string{"GET", "POST", "FOO", "OPTIONS", "DELETE", "CONNECT"}

// HarnessC11Serve: unserved requests get the right 404/405/OPTIONS handler and Allow header.
func HarnessC11Serve(st any) {
	s := st.(*c11State)
	method := c11ReqMethods[sym.Choose("method", len(c11ReqMethods))]
	lh := sym.Param("lh")
	host := sym.String("host", lh)
	lp := sym.Param("lp")
	var path string
	if lp == 0 {
		path = "*"
	} else {
		path = "/" + sym.String("path", lp-1)
		sym.Assume(!hasEmptySegment(path))
	}
	req := &http.Request{Method: method, Host: host, URL: &url.URL{Path: path}}
	if sym.ParamOr("raw", 0) == 1 {
		// percent-encoded request: routed (and probed for Allow) on RawPath
		for i := 0; i < len(path); i++ {
			sym.Assume(sym.ByteIn(path[i], rawPathBytes))
		}
		dec, ok := pctDecode(path)
		sym.Assume(ok && dec != path)
		req.URL.Path, req.URL.RawPath = dec, path
		sym.Cover("percent-encoded request")
	}

	// oracle
	how, res := s.serves(method, host, path)
	if res.ambiguous {
		return
	}
	var allow []string
	ambiguous := false
	connectEither := false // a CONNECT route reached by an ignored trailing slash may or may not be listed
	for _, m := range s.methods {
		if m == method {
			continue
		}
		if path == "*" && method == "OPTIONS" && s.autoOpts {
			allow = append(allow, m) // system-wide OPTIONS: every method that has routes
			continue
		}
		h, r := s.serves(m, host, path)
		if r.ambiguous {
			ambiguous = true
		}
		if h == 3 {
			connectEither = true
		} else if h != 0 {
			allow = append(allow, m)
		}
	}
	if ambiguous {
		return
	}
	if s.primePath != "" {
		pg, _, _ := s.p.serve(&http.Request{Method: s.primeMethod, Host: "", URL: &url.URL{Path: s.primePath}})
		sym.Assert(pg.kind == "route", "priming request served through an ignored trailing slash")
		sym.Cover("primed with an ignored trailing-slash match")
	}
	*s.redirSeen = served{}
	got, status, allowHdr := s.p.serve(req)

	// a trailing-slash match of a redirecting route on a clean path: the redirect handler runs, and its context
	// exposes no route, pattern or parameters and reports the redirect scope
	if how == 0 && res.route != nil && res.tsr && path != "/" && method != "CONNECT" && s.redirect[method+" "+res.route.pattern] && path == refClean(path) {
		sym.Cover("redirect handler context observed")
		sym.Assert(!got.hit && (status == 301 || status == 308), "a redirecting route answers the trailing-slash match with a redirect")
		sym.Assert(s.redirSeen.hit && s.redirSeen.scope == fox.RedirectHandler, "the redirect handler runs in the redirect scope")
		sym.Assert(s.redirSeen.pattern == "" && len(s.redirSeen.params) == 0, "the redirect handler's context exposes no route, pattern or parameters")
		return
	}

	if how == 1 || (how == 2 && path != "/") {
		sym.Cover("served by a route")
		sym.Assert(got.kind == "route" && got.pattern == res.route.pattern, "a serving route exists: its handler runs")
		return
	}
	if res.route != nil && res.tsr && path == "/" {
		return // trailing-slash outcome for "/" is not specified
	}
	sym.Assert(got.hit && got.kind != "route", "no route serves the request: a special handler runs")
	if got.kind == "route" || !got.hit {
		return
	}
	sym.Assert(got.pattern == "" && len(got.params) == 0, "special handlers see no route, pattern or parameters")
	expectFor := func(allow []string) (string, []string) {
		wantKind := "noroute"
		var wantAllow []string
		if method == "OPTIONS" && s.autoOpts {
			if len(allow) > 0 {
				wantKind = "options"
				wantAllow = append(append([]string(nil), allow...), "OPTIONS")
			}
		} else if s.noMethod {
			if len(allow) > 0 {
				wantKind = "nomethod"
				wantAllow = append([]string(nil), allow...)
				hasOpt := false
				for _, m := range allow {
					if m == "OPTIONS" {
						hasOpt = true
					}
				}
				if s.autoOpts && !hasOpt {
					wantAllow = append(wantAllow, "OPTIONS")
				}
			}
		}
		return wantKind, wantAllow
	}
	for _, m := range splitAllow(allowHdr) {
		sym.Assert(m != method || (method == "OPTIONS" && s.autoOpts), "Allow never lists the request's own (unserved) method")
	}
	wantKind, wantAllow := expectFor(allow)
	if connectEither {
		altKind, altAllow := expectFor(append(append([]string(nil), allow...), "CONNECT"))
		if got.kind == altKind && (altKind == "noroute" || sameStringSet(splitAllow(allowHdr), altAllow)) {
			wantKind, wantAllow = altKind, altAllow
		}
		sym.Cover("CONNECT route behind an ignored trailing slash (either)")
	}
	sym.Assert(got.kind == wantKind, "handler kind (404 / 405 / OPTIONS) follows the router options and the other methods serving this host and path")
	if got.kind != wantKind {
		return
	}
	switch wantKind {
	case "noroute":
		sym.Cover("404")
		sym.Assert(got.scope == fox.NoRouteHandler && status == 404, "no-route handler runs with its scope")
		sym.Assert(allowHdr == "", "no Allow header on 404")
	case "nomethod":
		sym.Cover("405")
		sym.Assert(got.scope == fox.NoMethodHandler && status == 405, "no-method handler runs with its scope")
		sym.Assert(sameStringSet(splitAllow(allowHdr), wantAllow), "405 Allow lists exactly the other methods serving this host and path")
	case "options":
		sym.Cover("OPTIONS")
		if path == "*" {
			sym.Cover("OPTIONS *")
		}
		sym.Assert(got.scope == fox.OptionsHandler && status == 204, "options handler runs with its scope")
		sym.Assert(sameStringSet(splitAllow(allowHdr), wantAllow), "OPTIONS Allow lists exactly the methods serving this host and path plus OPTIONS")
	}
}
