package harness

// Route-set corpus: the enumerated configuration bound (DESIGN.md 3.4). Fixed and versioned; the
// generated part lives in corpus_gen.go. Every set is accepted by the pinned router (checked by
// TestCorpusValid).

type R struct {
	Method  string
	Pattern string
}

type RouteSet struct {
	Name   string
	Routes []R
}

func rs(name string, method string, patterns ...string) RouteSet {
	s := RouteSet{Name: name}
	for _, p := range patterns {
		s.Routes = append(s.Routes, R{method, p})
	}
	return s
}

// CorpusHand: hand-written sets that reach the mechanisms listed in DESIGN.md appendix B.
var CorpusHand = []RouteSet{
	rs("static-basic", "GET", "/", "/a", "/ab", "/a/b"),
	rs("prio-3", "GET", "/fs/a.txt", "/fs/{f}", "/fs/*{p}"),
	rs("backtrack-2", "GET", "/a/b/c", "/a/{x}/d", "/*{w}"),
	rs("backtrack-3", "GET", "/{y}/a{x}/*{w}", "/ab/{z}/c", "/ab/ab/{q}"),
	rs("infix-1", "GET", "/x/*{w}/y", "/x/*{w}"),
	rs("infix-2", "GET", "/a/*{v}/b/*{w}/c", "/a/{x}"),
	rs("midseg", "GET", "/a{x}", "/a{x}/b", "/b{y}/", "/ab"),
	rs("tsr-basic", "GET", "/a/", "/b", "/c/{x}", "/d/{x}/"),
	rs("tsr-leaf-parent", "GET", "/", "/b{y}/a", "/b{y}/b"),
	rs("tsr-hidden", "GET", "/a/", "/a{x}", "/b", "/b{y}"),
	rs("host-basic", "GET", "b/", "a.b/x", "/x", "/y/{p}"),
	rs("host-param", "GET", "{h}.b/", "a.{h}/x", "a.b.c/{p}", "/z"),
	rs("host-only", "GET", "a.b/", "a.b/c"),
	rs("param-restore", "GET", "/{a}/x/y", "/{a}/{b}/z", "/{a}/{b}/{c}"),
	rs("readme-prio", "GET", "/*{filepath}", "/users/{id}", "/users/{id}/emails", "/users/{id}/{actions}"),
	rs("host-tsr", "GET", "a.b/x/", "/x", "a.b/y", "/y/", "/z"),
	fanout(),
	rs("siblings-3", "GET", "/s/b", "/s/d", "/s/f", "/s"),
	rs("leaf-one-child-wild", "GET", "/a", "/a/b", "/a/{x}", "/c", "/c/d", "/c/*{w}", "/e", "/e/f{y}/g"),
	rs("two-hosts-only", "GET", "a.b/", "c.d/y", "c.d/z"),
	// indices 1 and 7 (resp. 0 and 6) share a method in every harness that spreads routes over methods (i%2, i%3);
	// 1 and 7 are routes that do not ignore trailing slashes in C11
	rs("host-overlap-tsr", "GET", "/z", "b/x/", "/w", "/v", "b/y", "/u", "/t", "{h}/x"),
	rs("param-wild-siblings", "GET", "/fs/{f}", "/q", "/r/", "/s", "/t", "/r", "/fs/*{p}"),
	// one node key holding two parameters followed by more text
	rs("host-two-params", "GET", "{a}.{b}.c/x", "/x", "/w"),
	// a static edge whose first byte sorts before '*' added under a node that already has a catch-all child
	// (indices 0, 2, 4 share a method in C07)
	rs("low-byte-sibling", "GET", "/f/*{p}", "/q", "/f/a", "/r", "/f/$m", "/s", "/f/(x)"),
	// static text before a parameter inside one host label, with a static sibling label sharing the prefix
	rs("host-midlabel-param", "GET", "s1.b/x", "/x", "/w", "/v", "/u", "/t", "s{n}.b/y"),
	// more recorded backtracking alternatives (static + {param} + *{catch-all} at three nested levels) than tree levels
	rs("deep-alternatives", "GET", "/f/*{p}", "/f/{n}", "/f/i/*{p}", "/f/i/{n}", "/f/i/c/*{p}", "/f/i/c/{n}", "/f/i/c/l"),
	// accepted static patterns that are not in canonical form
	rs("noncanonical-static", "GET", "/n/./b/", "/q", "/m/../d", "/k/./e/"),
	// a static route matching without the slash, and a parameter sibling whose sub-tree branches right after its '/'
	rs("tsr-static-over-param-branch", "GET", "/u/m", "/u/{i}", "/u/{i}/p", "/u/{i}/l"),
	// a pattern ending in an infix catch-all continuation that is registered after two deeper ones sharing exactly it
	// (indices 0, 2, 4 share a method in C07)
	rs("infix-exact-after-deeper", "GET", "/a/*{x}/bc", "/q", "/a/*{x}/bd", "/r", "/a/*{x}/b"),
	// an infix catch-all node with children (start set for writes beneath it)
	rs("infix-children", "GET", "/f/*{p}/ba", "/f/*{p}/bc", "/g"),
}

// fanout has 60 sibling first bytes under "/" (the 50-child linear/binary search switch).
func fanout() RouteSet {
	s := RouteSet{Name: "fanout-60"}
	const chars = "abcdefghijklmnopqrstuvwxyzABCDEFGHIJKLMNOPQRSTUVWXYZ01234567"
	for i := 0; i < len(chars); i++ {
		s.Routes = append(s.Routes, R{"GET", "/" + chars[i:i+1] + "/{p}"})
	}
	s.Routes = append(s.Routes, R{"GET", "/{q}"})
	return s
}
