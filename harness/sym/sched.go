package sym

// Native mirror of the executor's cooperative scheduler (engine/threads.go): when a witness carries
// schedule decisions ("sched<n>"), harness threads run one at a time and switch only at the router's
// synchronisation points (reported through Hook by the instrumented overlay copies of fox.go / txn.go),
// taking the same decisions in the same order. A schedule found by the executor is thereby replayed
// against the real build.

import (
	"fmt"
	"os"
	"sync"
)

const (
	nRunnable = iota
	nBlocked
	nJoining
	nDone
)

type nthread struct {
	id     int
	wake   chan struct{}
	status int
}

type nsched struct {
	threads    []*nthread
	cur        *nthread
	locked     bool
	preempt    int
	maxPreempt int
	seq        int
	done       sync.WaitGroup
	failed     any
}

var sched *nsched

func (s *nsched) runnable() []*nthread {
	var out []*nthread
	for _, t := range s.threads {
		if t.status == nRunnable {
			out = append(out, t)
		}
	}
	return out
}

func (s *nsched) choose(n int) int {
	if n <= 1 {
		return 0
	}
	name := fmt.Sprintf("sched%d", s.seq)
	s.seq++
	v, ok := w.Ints[name]
	if !ok {
		return 0 // the recorded schedule ended (the executor stopped the path earlier): run straight on
	}
	if v < 0 || int(v) >= n {
		panic(AssumeFailed{})
	}
	return int(v)
}

func (s *nsched) switchTo(next *nthread) {
	prev := s.cur
	if next == prev {
		return
	}
	s.cur = next
	next.wake <- struct{}{}
	<-prev.wake
}

func (s *nsched) syncPoint() {
	if len(s.threads) < 2 {
		return
	}
	cands := s.runnable()
	if len(cands) <= 1 || s.preempt >= s.maxPreempt {
		return
	}
	ordered := []*nthread{s.cur}
	for _, t := range cands {
		if t != s.cur {
			ordered = append(ordered, t)
		}
	}
	if k := s.choose(len(ordered)); k != 0 {
		s.preempt++
		s.switchTo(ordered[k])
	}
}

func (s *nsched) yieldBlocked() {
	cands := s.runnable()
	if len(cands) == 0 {
		panic("sym: native scheduler: all threads blocked")
	}
	s.switchTo(cands[s.choose(len(cands))])
}

// Hook is installed as fox.VerifHook by the replay test.
func Hook(kind string) {
	s := sched
	if s == nil {
		return
	}
	switch kind {
	case "lock":
		s.syncPoint()
		for s.locked {
			s.cur.status = nBlocked
			s.yieldBlocked()
		}
		s.cur.status = nRunnable
		s.locked = true
	case "unlock":
		s.locked = false
		for _, t := range s.threads {
			if t.status == nBlocked {
				t.status = nRunnable
			}
		}
	case "load", "store":
		s.syncPoint()
	}
}

func (s *nsched) spawn(f func()) {
	t := &nthread{id: len(s.threads), wake: make(chan struct{})}
	s.threads = append(s.threads, t)
	s.done.Add(1)
	go func() {
		defer s.done.Done()
		<-t.wake
		func() {
			defer func() {
				if r := recover(); r != nil && s.failed == nil {
					s.failed = r
				}
			}()
			f()
		}()
		t.status = nDone
		s.afterExit()
	}()
	s.syncPoint()
}

func (s *nsched) afterExit() {
	main := s.threads[0]
	if s.failed != nil {
		s.cur = main
		main.wake <- struct{}{}
		return
	}
	cands := s.runnable()
	if len(cands) == 0 {
		allDone := true
		for _, x := range s.threads[1:] {
			if x.status != nDone {
				allDone = false
			}
		}
		if main.status == nJoining && allDone {
			main.status = nRunnable
			cands = []*nthread{main}
		} else {
			s.failed = "sym: native scheduler: deadlock after a thread exited"
			s.cur = main
			main.wake <- struct{}{}
			return
		}
	}
	next := cands[s.choose(len(cands))]
	s.cur = next
	next.wake <- struct{}{}
}

func (s *nsched) join() {
	me := s.cur
	for {
		if s.failed != nil {
			f := s.failed
			sched = nil
			panic(f)
		}
		allDone := true
		for _, x := range s.threads {
			if x != me && x.status != nDone {
				allDone = false
			}
		}
		if allDone {
			break
		}
		me.status = nJoining
		cands := s.runnable()
		if len(cands) == 0 {
			panic("sym: native scheduler: Join with every other thread blocked")
		}
		s.switchTo(cands[s.choose(len(cands))])
		me.status = nRunnable
	}
	if s.failed != nil {
		f := s.failed
		sched = nil
		panic(f)
	}
	sched = nil
}

func hasSchedule() bool {
	if w == nil || os.Getenv("SYM_NOSCHED") != "" {
		// SYM_NOSCHED: real goroutines (race confirmation: the baton hand-over would order every access)
		return false
	}
	for k := range w.Ints {
		if len(k) > 5 && k[:5] == "sched" {
			return true
		}
	}
	return false
}
