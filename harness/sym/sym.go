// Package sym is the nondeterministic-input API of the harnesses.
//
// Under the symbolic executor (symgo) every function in this package is
// intercepted: Byte/String/Int/Bool return fresh SMT variables, Assume and
// Assert talk to the solver. The bodies below are the NATIVE implementation
// used to replay a solver counterexample against the real build: values come
// from the JSON witness named by $SYM_REPLAY and a failing Assert panics.
package sym

import (
	"encoding/base64"
	"encoding/json"
	"fmt"
	"os"
	"sync"
	"time"
)

type witness struct {
	Harness string            `json:"harness"`
	Params  map[string]int    `json:"params"`
	Ints    map[string]int64  `json:"ints"`
	Strs    map[string]string `json:"strs"` // base64
	Expect  string            `json:"expect,omitempty"`
}

var w *witness

// Failure is the panic value of a failed assertion in native replay.
type Failure struct{ Msg string }

func (f Failure) Error() string { return "sym.Assert failed: " + f.Msg }

// AssumeFailed is the panic value when a replayed witness violates an Assume.
type AssumeFailed struct{}

// Load reads a witness file (native replay only).
func Load(path string) (harness string, err error) {
	b, err := os.ReadFile(path)
	if err != nil {
		return "", err
	}
	ww := new(witness)
	if err := json.Unmarshal(b, ww); err != nil {
		return "", err
	}
	w = ww
	return ww.Harness, nil
}

func need() {
	if w == nil {
		panic("sym: no witness loaded (native mode needs SYM_REPLAY)")
	}
}

// Param returns a concrete bound chosen by the driver (e.g. a length).
func Param(name string) int {
	need()
	v, ok := w.Params[name]
	if !ok {
		panic("sym: missing param " + name)
	}
	return v
}

// Byte returns an arbitrary byte.
func Byte(name string) byte {
	need()
	return byte(intOf(name))
}

// Int returns an arbitrary int in [lo, hi].
func Int(name string, lo, hi int) int {
	need()
	if lo == hi {
		return lo
	}
	v := int(intOf(name))
	if v < lo || v > hi {
		panic(AssumeFailed{})
	}
	return v
}

// Uint32 returns an arbitrary uint32.
func Uint32(name string) uint32 {
	need()
	return uint32(intOf(name))
}

// Uint64 returns an arbitrary uint64.
func Uint64(name string) uint64 {
	need()
	return uint64(intOf(name))
}

// Bool returns an arbitrary bool.
func Bool(name string) bool {
	need()
	return intOf(name) != 0
}

// Choose returns an arbitrary value in [0,k); the executor explores each value on its own path.
func Choose(name string, k int) int {
	need()
	if k <= 1 {
		return 0
	}
	v := int(intOf(name))
	if v < 0 || v >= k {
		panic(AssumeFailed{})
	}
	return v
}

// String returns a string of exactly n arbitrary bytes.
func String(name string, n int) string {
	need()
	s, ok := w.Strs[name]
	if !ok {
		if n == 0 {
			return ""
		}
		panic("sym: missing string " + name)
	}
	b, err := base64.StdEncoding.DecodeString(s)
	if err != nil {
		panic(err)
	}
	if len(b) != n {
		panic(fmt.Sprintf("sym: string %s has length %d, want %d", name, len(b), n))
	}
	return string(b)
}

// Bytes returns a fresh slice of exactly n arbitrary bytes.
func Bytes(name string, n int) []byte { return []byte(String(name, n)) }

// Assume restricts the inputs considered; placed before the code it constrains.
func Assume(c bool) {
	if !c {
		panic(AssumeFailed{})
	}
}

// Assert states the property.
func Assert(c bool, msg string) {
	if !c {
		panic(Failure{msg})
	}
}

// Cover marks a region that must be reachable (vacuity guard).
func Cover(label string) {}

// Fail is Assert(false, msg).
func Fail(msg string) { panic(Failure{msg}) }

// Freeze marks everything reachable from x as immutable (executor only).
func Freeze(x any) {}

// Unfreeze clears all frozen marks (executor only).
func Unfreeze() {}

// AllocMark returns the number of allocation events seen so far (executor only; 0 natively).
func AllocMark() int { return 0 }

// Symbolic reports whether the code runs under the symbolic executor.
func Symbolic() bool { return false }

// PoolAllChoices makes every sync.Pool.Get explore each pooled object (executor only; natively the
// real pool decides).
func PoolAllChoices(on bool) {}

// WouldBlock runs f and reports whether it blocked forever on a lock held by the caller (executor:
// the mutex model; natively: f runs in a goroutine and is given 200ms).
func WouldBlock(f func()) bool {
	done := make(chan struct{})
	go func() { defer close(done); f() }()
	select {
	case <-done:
		return false
	case <-time.After(200 * time.Millisecond):
		return true
	}
}

var wg sync.WaitGroup

// Threads enables the cooperative thread layer of the executor with a pre-emption bound; context switches
// happen at mutex Lock and atomic Load/Store (ThreadsPool: also at sync.Pool Get/Put). Natively, when the
// witness carries a schedule, the same scheduler is mirrored (see sched.go); otherwise real goroutines run.
func Threads(maxPreempt int) {
	if hasSchedule() {
		main := &nthread{id: 0, wake: make(chan struct{})}
		sched = &nsched{threads: []*nthread{main}, cur: main, maxPreempt: maxPreempt}
	}
}

// ThreadsPool is Threads with sync.Pool Get/Put as additional scheduling points (no native schedule replay).
func ThreadsPool(maxPreempt int) {}

// Go starts f as a harness thread.
func Go(f func()) {
	if sched != nil {
		sched.spawn(f)
		return
	}
	wg.Add(1)
	go func() {
		defer wg.Done()
		f()
	}()
}

// Join waits for every thread started with Go.
func Join() {
	if sched != nil {
		sched.join()
		return
	}
	wg.Wait()
}

// ByteIn reports whether b occurs in set (one solver term under the executor: no path split).
func ByteIn(b byte, set string) bool {
	for i := 0; i < len(set); i++ {
		if set[i] == b {
			return true
		}
	}
	return false
}

// ParamOr is Param with a default for jobs that do not set it.
func ParamOr(name string, def int) int {
	need()
	if v, ok := w.Params[name]; ok {
		return v
	}
	return def
}

// intOf returns a scalar input of the witness; a witness that lacks it was not produced for this path.
func intOf(name string) int64 {
	v, ok := w.Ints[name]
	if !ok {
		panic("sym: missing int " + name)
	}
	return v
}

var atomicMu sync.Mutex

// Atomic runs f as one indivisible step of the harness (bookkeeping shared by harness threads): no scheduling
// point inside, ordered after every earlier Atomic section.
func Atomic(f func()) {
	atomicMu.Lock()
	defer atomicMu.Unlock()
	f()
}
