package harness

import (
	"net/http"
	"net/url"

	"github.com/tigerwill90/fox"
	"verif/harness/sym"
)

type served struct {
	hit     bool
	kind    string // "route", "noroute", "nomethod", "options"
	pattern string
	params  []kv
	scope   fox.HandlerScope
}

type probeRouter struct {
	r         *fox.Router
	got       *served
	w         *nullWriter
	inHandler func(c fox.Context) // optional: runs inside every handler
}

// newProbeRouter builds a router whose handlers record what ran.
func newProbeRouter(opts ...fox.GlobalOption) *probeRouter {
	p := &probeRouter{got: &served{}, w: &nullWriter{h: http.Header{}}}
	rec := func(kind string, code int) fox.HandlerFunc {
		return func(c fox.Context) {
			p.got.hit = true
			p.got.kind = kind
			p.got.pattern = c.Pattern()
			p.got.params = collectParams(c)
			p.got.scope = c.Scope()
			if p.inHandler != nil {
				p.inHandler(c)
			}
			c.Writer().WriteHeader(code)
		}
	}
	all := append([]fox.GlobalOption{
		fox.WithNoRouteHandler(rec("noroute", 404)),
		fox.WithNoMethodHandler(rec("nomethod", 405)),
		fox.WithOptionsHandler(rec("options", 204)),
	}, opts...)
	r, err := fox.New(all...)
	if err != nil {
		panic(err)
	}
	p.r = r
	return p
}

func (p *probeRouter) handler() fox.HandlerFunc {
	return func(c fox.Context) {
		p.got.hit = true
		p.got.kind = "route"
		p.got.pattern = c.Pattern()
		p.got.params = collectParams(c)
		p.got.scope = c.Scope()
		if p.inHandler != nil {
			p.inHandler(c)
		}
		c.Writer().WriteHeader(200)
	}
}

func (p *probeRouter) serve(req *http.Request) (served, int, string) {
	*p.got = served{}
	p.w.status = 0
	for k := range p.w.h {
		delete(p.w.h, k)
	}
	p.r.ServeHTTP(p.w, req)
	return *p.got, p.w.status, p.w.h.Get("Allow")
}

func methodOf(i int) string {
	if i%2 == 0 {
		return "GET"
	}
	return "POST"
}

var c07Extras = []string{"b.c/zz", "a.b.c/zz", "a.b.c.d/", "/s/a", "/s/c", "/zz", "/a/zz", "/{zz}", "/a/{zz}", "/*{zz}", "/a/b/zz", "zz.b/", "/ab/zz/{q}"}

type pairState struct {
	set  RouteSet
	a, b *probeRouter
}

func mustHandle(p *probeRouter, method, pattern string, opts ...fox.RouteOption) {
	if _, err := p.r.Handle(method, pattern, p.handler(), opts...); err != nil {
		panic("c07: " + method + " " + pattern + ": " + err.Error())
	}
}

func SetupC07Pair() any {
	set := corpusSet(sym.Param("set"))
	hist := sym.Param("hist")
	n := len(set.Routes)
	st := &pairState{set: set, a: newProbeRouter(), b: newProbeRouter()}
	for i, rt := range set.Routes {
		mustHandle(st.a, methodOf(i), rt.Pattern)
	}
	b := st.b
	insertAll := func() {
		for i, rt := range set.Routes {
			mustHandle(b, methodOf(i), rt.Pattern)
		}
	}
	tryExtras := func(insert bool) {
		for k, e := range c07Extras {
			m := methodOf(k)
			if insert {
				_, _ = b.r.Handle(m, e, b.handler()) // conflicts with the set are simply skipped
			} else if b.r.Has(m, e) {
				inSet := false
				for i, rt := range set.Routes {
					if rt.Pattern == e && methodOf(i) == m {
						inSet = true
					}
				}
				if !inSet {
					if _, err := b.r.Delete(m, e); err != nil {
						panic(err)
					}
				}
			}
		}
	}
	switch hist {
	case 0: // reverse order
		for i := n - 1; i >= 0; i-- {
			mustHandle(b, methodOf(i), set.Routes[i].Pattern)
		}
	case 1: // odd indices first, then even
		for i := 1; i < n; i += 2 {
			mustHandle(b, methodOf(i), set.Routes[i].Pattern)
		}
		for i := 0; i < n; i += 2 {
			mustHandle(b, methodOf(i), set.Routes[i].Pattern)
		}
	case 2: // extras inserted after, then deleted
		insertAll()
		tryExtras(true)
		tryExtras(false)
	case 3: // update every route in place
		insertAll()
		for i, rt := range set.Routes {
			if _, err := b.r.Update(methodOf(i), rt.Pattern, b.handler()); err != nil {
				panic(err)
			}
		}
	case 4: // delete and re-insert each route in turn
		insertAll()
		for i, rt := range set.Routes {
			if _, err := b.r.Delete(methodOf(i), rt.Pattern); err != nil {
				panic(err)
			}
			mustHandle(b, methodOf(i), rt.Pattern)
		}
	case 5: // truncate and refill inside one committed transaction
		insertAll()
		err := b.r.Updates(func(txn *fox.Txn) error {
			if err := txn.Truncate(); err != nil {
				return err
			}
			for i := n - 1; i >= 0; i-- {
				if _, err := txn.Handle(methodOf(i), set.Routes[i].Pattern, b.handler()); err != nil {
					return err
				}
			}
			return nil
		})
		if err != nil {
			panic(err)
		}
	case 6: // an aborted transaction full of writes
		insertAll()
		txn := b.r.Txn(true)
		for i, rt := range set.Routes {
			if i%2 == 0 {
				_, _ = txn.Delete(methodOf(i), rt.Pattern)
			}
		}
		for k, e := range c07Extras {
			_, _ = txn.Handle(methodOf(k), e, b.handler())
		}
		_ = txn.Truncate("POST")
		txn.Abort()
	case 7: // extras first, then the set, then extras deleted
		tryExtras(true)
		for i, rt := range set.Routes {
			m := methodOf(i)
			if !b.r.Has(m, rt.Pattern) {
				if _, err := b.r.Handle(m, rt.Pattern, b.handler()); err != nil {
					// an extra conflicts with this route: remove every extra and retry
					tryExtras(false)
					mustHandle(b, m, rt.Pattern)
				}
			}
		}
		tryExtras(false)
	case 8: // insert, delete everything in order, insert again in reverse
		insertAll()
		for i, rt := range set.Routes {
			if _, err := b.r.Delete(methodOf(i), rt.Pattern); err != nil {
				panic(err)
			}
		}
		for i := n - 1; i >= 0; i-- {
			mustHandle(b, methodOf(i), set.Routes[i].Pattern)
		}
	case 9: // every unregistered prefix of a route that ends before a '/' is inserted and deleted again
		insertAll()
		done := map[string]bool{} // each prefix once per method (an even number of toggles could cancel out)
		for i, rt := range set.Routes {
			m := methodOf(i)
			for cut := 1; cut <= len(rt.Pattern); cut++ {
				// prefixes that end before a '/' ("/foo") and right after one ("/foo/")
				if !(cut < len(rt.Pattern) && rt.Pattern[cut] == '/') && rt.Pattern[cut-1] != '/' {
					continue
				}
				pre := rt.Pattern[:cut]
				if pre == "" || done[m+" "+pre] || b.r.Has(m, pre) {
					continue
				}
				done[m+" "+pre] = true
				if _, err := b.r.Handle(m, pre, b.handler()); err != nil {
					continue // not a valid pattern on its own, or conflicting
				}
				if _, err := b.r.Delete(m, pre); err != nil {
					panic(err)
				}
			}
		}
	case 10: // an aborted caching transaction that registers every unregistered prefix and a route right below it
		insertAll()
		txn := b.r.Txn(true)
		for i, rt := range set.Routes {
			m := methodOf(i)
			for cut := 1; cut <= len(rt.Pattern); cut++ {
				if !(cut < len(rt.Pattern) && rt.Pattern[cut] == '/') && rt.Pattern[cut-1] != '/' {
					continue
				}
				pre := rt.Pattern[:cut]
				if txn.Has(m, pre) {
					continue
				}
				if _, err := txn.Handle(m, pre, b.handler()); err != nil {
					continue
				}
				_, _ = txn.Handle(m, pre+"zq", b.handler())
				_, _ = txn.Handle(m, pre+"/zq", b.handler())
			}
		}
		txn.Abort()
	default:
		panic("unknown history")
	}
	if b.r.Len() != st.a.r.Len() {
		panic("c07: histories do not end in the same registered set")
	}
	return st
}

const nC07Hist = 11

var c07Methods = []string{"GET", "POST", "DELETE", "OPTIONS"}

// HarnessC07Pair: two routers holding the same set route every request identically.
func HarnessC07Pair(st any) {
	s := st.(*pairState)
	method := c07Methods[sym.Choose("method", len(c07Methods))]
	lh := sym.Param("lh")
	host := sym.String("host", lh)
	lp := sym.Param("lp")
	path := "/" + sym.String("path", lp-1)
	sym.Assume(!hasEmptySegment(path))
	req := &http.Request{Method: method, Host: host, URL: &url.URL{Path: path}}

	ra, ca, ta := s.a.r.Lookup(nil, req)
	rb, cb, tb := s.b.r.Lookup(nil, req)
	sym.Assert((ra == nil) == (rb == nil), "same match / no-match outcome regardless of history")
	sym.Assert(ta == tb, "same trailing-slash outcome regardless of history")
	if ra != nil && rb != nil {
		sym.Cover("both matched")
		sym.Assert(ra.Pattern() == rb.Pattern(), "same route regardless of history")
		sym.Assert(ra == s.a.r.Route(method, ra.Pattern()) && rb == s.b.r.Route(method, rb.Pattern()), "the route a request is served by is the one currently registered under its pattern")
		sym.Assert(sameParams(collectParams(ca), collectParams(cb)), "same parameters regardless of history")
	}
	if ca != nil {
		ca.Close()
	}
	if cb != nil {
		cb.Close()
	}
	ga, sa, aa := s.a.serve(req)
	gb, sb, ab := s.b.serve(req)
	sym.Assert(sa == sb, "same status regardless of history")
	sym.Assert(ga.kind == gb.kind && ga.pattern == gb.pattern && sameParams(ga.params, gb.params), "same handler, route and parameters regardless of history")
	sym.Assert(aa == ab, "same Allow header regardless of history")
	if ga.kind == "nomethod" {
		sym.Cover("405 compared")
	}
	if ga.kind == "options" {
		sym.Cover("OPTIONS compared")
	}
}
