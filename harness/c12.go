package harness

import (
	"net/http"
	"net/url"

	"github.com/tigerwill90/fox"
	"verif/harness/sym"
)

const (
	shDirect = iota
	shIgnoredTsr
	shNoRoute
	shNoMethod
	shOptions
	shRedirect
	shLookup
	shCloneWith
	shClone
	shTreeReplaced
	shHijack    // a direct request whose handler takes over the connection (Writer().Hijack on a capable writer)
	shInfix     // a request matched directly by a route with a catch-all in the middle of its pattern
	shIterBreak // an Iter.Reverse loop left at its first match, then a direct request
	nShapes
)

type c12State struct {
	redirRoute   bool
	redirPattern string
	redirParams  int
	redirScope   fox.HandlerScope
	r            *fox.Router
	behave       func(c fox.Context)
	clones       []cloneRec
	extra        int
}

type cloneRec struct {
	c       fox.Context
	id      string
	pattern string
	q, hdr  string
	status  int
	rhdr    string
}

func SetupC12History() any {
	st := &c12State{}
	h := func(c fox.Context) {
		if st.behave != nil {
			st.behave(c)
		}
	}
	// a middleware in redirect scope: the redirect handler's context must not show anything of earlier requests
	redirMW := func(next fox.HandlerFunc) fox.HandlerFunc {
		return func(c fox.Context) {
			st.redirRoute = c.Route() != nil
			st.redirPattern = c.Pattern()
			st.redirParams = len(collectParams(c))
			st.redirScope = c.Scope()
			next(c)
		}
	}
	r, err := fox.New(fox.WithNoRouteHandler(h), fox.WithNoMethodHandler(h), fox.WithOptionsHandler(h), fox.WithMiddlewareFor(fox.RedirectHandler, redirMW))
	if err != nil {
		panic(err)
	}
	must := func(_ *fox.Route, err error) {
		if err != nil {
			panic(err)
		}
	}
	must(r.Handle("GET", "/u/{id}", h))
	must(r.Handle("GET", "/t/{id}/", h, fox.WithIgnoreTrailingSlash(true)))
	must(r.Handle("GET", "/d/{id}/", h, fox.WithRedirectTrailingSlash(true)))
	must(r.Handle("GET", "/f/*{id}/z", h))
	st.r = r
	return st
}

func tok(prefix string, i int) string { return prefix + string(rune('a'+i)) }

// c12Request builds the i-th request of a given shape with per-request tokens in every field.
func c12Request(shape, i int) *http.Request {
	req := &http.Request{Method: "GET", Host: tok("host", i), RemoteAddr: "192.0.2.1:1",
		URL:    &url.URL{Path: "/u/" + tok("p", i), RawQuery: "q=" + tok("q", i)},
		Header: http.Header{"X-Tok": {tok("h", i)}}}
	switch shape {
	case shIgnoredTsr:
		req.URL.Path = "/t/" + tok("p", i)
	case shRedirect:
		req.URL.Path = "/d/" + tok("p", i)
	case shNoRoute:
		req.URL.Path = "/nowhere/" + tok("p", i)
	case shInfix:
		req.URL.Path = "/f/" + tok("p", i) + "/z"
	case shNoMethod:
		req.Method = "POST"
	case shOptions:
		req.Method = "OPTIONS"
	}
	return req
}

// HarnessC12History: whatever earlier requests did with the recycled contexts, a handler only sees
// data of the current request; clones stay equal to their own request.
func HarnessC12History(st any) {
	s := st.(*c12State)
	k := sym.Param("k")
	sym.PoolAllChoices(true)
	s.clones = nil
	for i := 0; i < k; i++ {
		last := i == k-1
		shape := sym.Choose("shape"+string(rune('0'+i)), nShapes)
		if last && shape >= shRedirect {
			sym.Assume(false) // the final request is one whose handler we control
		}
		req := c12Request(shape, i)
		wantPattern, wantID := "", ""
		wantScope := fox.RouteHandler
		switch shape {
		case shDirect, shLookup, shCloneWith, shClone, shTreeReplaced, shHijack, shIterBreak:
			wantPattern, wantID = "/u/{id}", tok("p", i)
		case shInfix:
			wantPattern, wantID = "/f/*{id}/z", tok("p", i)
		case shIgnoredTsr:
			wantPattern, wantID = "/t/{id}/", tok("p", i)
		case shNoRoute:
			wantScope = fox.NoRouteHandler
		case shNoMethod:
			wantScope = fox.NoMethodHandler
		case shOptions:
			wantScope = fox.OptionsHandler
		}
		seen := false
		s.behave = func(c fox.Context) {
			seen = true
			// every getter derives from the current request only
			sym.Assert(c.Request() == req, "Request() is the current request")
			sym.Assert(c.Method() == req.Method && c.Host() == req.Host && c.Path() == req.URL.Path, "Method/Host/Path are the current request's")
			sym.Assert(c.Pattern() == wantPattern, "Pattern() is the current route's")
			if wantPattern == "" {
				sym.Assert(c.Route() == nil, "no route in special handlers")
			} else {
				sym.Assert(c.Route() != nil && c.Route().Pattern() == wantPattern, "Route() is the current route")
			}
			ps := collectParams(c)
			if wantID == "" {
				sym.Assert(len(ps) == 0, "no parameters from an earlier request")
			} else {
				sym.Assert(len(ps) == 1 && ps[0].k == "id" && ps[0].v == wantID && c.Param("id") == wantID, "parameters are the current request's")
			}
			sym.Assert(c.QueryParam("q") == tok("q", i) && c.QueryParams().Get("q") == tok("q", i), "query values are the current request's")
			sym.Assert(c.Header("X-Tok") == tok("h", i), "request headers are the current request's")
			sym.Assert(c.Scope() == wantScope, "Scope() is the current handler's")
			w := c.Writer()
			sym.Assert(w.Status() == 200 && w.Size() == 0 && !w.Written(), "writer status/size/written start fresh")
			if shape != shOptions && shape != shNoMethod {
				sym.Assert(w.Header().Get("R-Tok") == "" && w.Header().Get("Allow") == "", "response headers start fresh")
			}
			// leave per-request traces for the next user of this context
			c.SetHeader("R-Tok", tok("r", i))
			w.WriteHeader(201 + i)
			nw, werr := w.Write([]byte("body")[:1+i%3])
			sym.Assert(werr == nil && nw == 1+i%3 && w.Status() == 201+i && w.Written() && w.Size() == 1+i%3, "the writer of the current request accepts and records this request's response")
			// another user of the context pool inside the handler must get a context of its own
			if lrt, lcx, _ := s.r.Lookup(c.Writer(), c12Request(shDirect, 6)); lcx != nil {
				sym.Assert(lrt != nil && lcx.Param("id") == tok("p", 6), "a nested Lookup shows the looked-up request")
				sym.Assert(c.Request() == req && c.Pattern() == wantPattern && c.Param("id") == wantID, "a nested Lookup leaves the handler's own context alone")
				lcx.Close()
			}
			if wantID == "" && shape != shRedirect {
				// a clone of a context without parameters, kept beyond the handler
				s.clones = append(s.clones, cloneRec{c: c.Clone(), id: "", pattern: "", q: tok("q", i), hdr: tok("h", i), status: 201 + i, rhdr: tok("r", i)})
				sym.Cover("Clone of a context without parameters")
			}
			switch shape {
			case shHijack:
				_, _, herr := w.Hijack()
				sym.Assert(herr == nil, "Hijack is delegated to a capable underlying writer")
				sym.Cover("connection hijacked in a handler")
			case shClone:
				cl := c.Clone()
				s.clones = append(s.clones, cloneRec{c: cl, id: wantID, pattern: wantPattern, q: tok("q", i), hdr: tok("h", i), status: 201 + i, rhdr: tok("r", i)})
				sym.Cover("Clone taken in a handler")
			case shCloneWith:
				g2 := &ghost{sc: &script{}, hdr: http.Header{}}
				req2 := c12Request(shDirect, 7)
				cc := c.CloneWith(richRecorder(g2), req2)
				sym.Assert(cc.Request() == req2 && cc.Pattern() == wantPattern && cc.Param("id") == wantID, "CloneWith carries the route and parameters with the new request")
				sym.Assert(cc.QueryParam("q") == tok("q", 7) && cc.Header("X-Tok") == tok("h", 7), "CloneWith shows the query and headers of the request it was given")
				cc.Close()
				// the usual writer-wrapping middleware pattern: same request, another writer
				cs := c.CloneWith(richRecorder(g2), c.Request())
				sym.Assert(cs.Request() == req && cs.QueryParam("q") == tok("q", i) && cs.QueryParams().Get("q") == tok("q", i) && cs.Header("X-Tok") == tok("h", i) && cs.Param("id") == wantID, "CloneWith with the same request shows the current request's data")
				cs.Close()
				sym.Cover("CloneWith in a handler")
				// CloneWith / Lookup handed the router's own writer: a Clone of that context shows the current response
				cw := c.CloneWith(c.Writer(), req2)
				cl2 := cw.Clone()
				sym.Assert(cl2.Writer().Status() == w.Status() && cl2.Writer().Size() == w.Size() && cl2.Writer().Written() == w.Written(), "Clone of a CloneWith context sharing the writer shows the current response state")
				sym.Assert(cl2.Writer().Header().Get("R-Tok") == tok("r", i), "Clone of a CloneWith context sharing the writer shows the current response headers")
				cw.Close()
				lrte, lcc, _ := s.r.Lookup(c.Writer(), c12Request(shDirect, 5))
				if lcc != nil {
					cl3 := lcc.Clone()
					sym.Assert(lrte != nil && cl3.Writer().Status() == w.Status() && cl3.Writer().Size() == w.Size(), "Clone of a Lookup context sharing the writer shows the current response state")
					lcc.Close()
				}
			}
		}
		switch shape {
		case shLookup:
			rte, cc, tsr := s.r.Lookup(nil, req)
			sym.Assert(rte != nil && !tsr && cc != nil, "manual lookup matched")
			if cc != nil {
				sym.Assert(cc.Param("id") == wantID && cc.Pattern() == wantPattern && cc.Request() == req, "Lookup context shows the looked-up request")
				sym.Assert(cc.QueryParam("q") == tok("q", i), "Lookup context query values")
				sym.Assert(cc.Scope() == fox.RouteHandler && cc.Route() == rte, "Lookup context shows the route scope and the route found")
				cl := cc.Clone()
				s.clones = append(s.clones, cloneRec{c: cl, id: wantID, pattern: wantPattern, q: tok("q", i), hdr: tok("h", i), status: 200, rhdr: ""})
				sym.Cover("Clone of a Lookup context")
				cc.Close()
			}
		case shTreeReplaced:
			s.extra++
			if _, err := s.r.Handle("GET", "/x/"+tok("n", i), noopHandler); err != nil {
				panic(err)
			}
			serveCapture(s.r, req)
			sym.Assert(seen, "handler ran")
		case shIterBreak:
			it := s.r.Iter()
			for range it.Reverse(it.Methods(), req.Host, req.URL.Path) {
				break // leave the loop at the first match
			}
			_, esc := serveCapture(s.r, req)
			sym.Assert(esc == nil && seen, "handler ran")
			sym.Cover("Iter.Reverse loop left early")
		case shHijack:
			gh := &ghost{sc: &script{}, hdr: http.Header{}}
			esc := panicsWith(func() { s.r.ServeHTTP(richW{gh, &capCalls{}}, req) })
			sym.Assert(esc == nil && seen, "handler ran")
		case shRedirect:
			s.redirScope = 0
			g, _ := serveCapture(s.r, req)
			sym.Assert(len(g.finals) == 1 && g.finals[0] == 301, "redirected")
			sym.Assert(s.redirScope == fox.RedirectHandler && !s.redirRoute && s.redirPattern == "" && s.redirParams == 0, "the redirect handler's context shows no route, pattern or parameters of any request")
			sym.Cover("redirect handler context observed")
		default:
			_, esc := serveCapture(s.r, req)
			sym.Assert(esc == nil && seen, "handler ran")
		}
	}
	// clones are stable deep copies of their own request
	for _, cl := range s.clones {
		c := cl.c
		sym.Assert(c.Pattern() == cl.pattern && c.Param("id") == cl.id && (cl.id != "" || len(collectParams(c)) == 0), "a Clone keeps its route and parameters after the original is reused")
		sym.Assert(c.QueryParam("q") == cl.q && c.Header("X-Tok") == cl.hdr, "a Clone keeps its request data")
		sym.Assert(c.Writer().Status() == cl.status, "a Clone keeps the writer status of its request")
		sym.Assert(c.Writer().Header().Get("R-Tok") == cl.rhdr, "a Clone keeps the response headers of its request")
	}
}

// richRecorder wraps a ghost writer as a fox.ResponseWriter (through a throw-away router context).
func richRecorder(g *ghost) fox.ResponseWriter {
	tc := fox.NewTestContextOnly(plainW{g}, &http.Request{Method: "GET", URL: &url.URL{Path: "/"}})
	return tc.Writer()
}
