package harness

import (
	"os"
	"testing"

	"github.com/tigerwill90/fox"

	"verif/harness/sym"
)

func init() {
	fox.VerifHook = sym.Hook
	nativeAllocs = func(f func()) float64 { return testing.AllocsPerRun(20, f) }
}

// TestReplay runs one harness natively on the witness in $SYM_REPLAY.
func TestReplay(t *testing.T) {
	path := os.Getenv("SYM_REPLAY")
	if path == "" {
		t.Skip("SYM_REPLAY not set")
	}
	name, err := sym.Load(path)
	if err != nil {
		t.Fatal(err)
	}
	h, ok := Registry[name]
	if !ok {
		t.Fatalf("unknown harness %q", name)
	}
	defer func() {
		if r := recover(); r != nil {
			switch r := r.(type) {
			case sym.Failure:
				t.Fatalf("REPLAY-VIOLATION: %s", r.Msg)
			case sym.AssumeFailed:
				t.Logf("REPLAY-ASSUME-FAILED")
			default:
				t.Fatalf("REPLAY-PANIC: %v", r)
			}
		}
	}()
	var st any
	if h.Setup != nil {
		st = h.Setup()
	}
	h.Run(st)
	t.Logf("REPLAY-OK")
}
