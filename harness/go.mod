module verif/harness

go 1.24

toolchain go1.24.0

require github.com/tigerwill90/fox v0.0.0

replace github.com/tigerwill90/fox => /repo
