package harness

import (
	"io"
	"net/http"
	"net/url"

	"github.com/tigerwill90/fox"
	"verif/harness/sym"
)

// nativeAllocs is set by replay_test.go (testing.AllocsPerRun); nil under the executor.
var nativeAllocs func(f func()) float64

type allocState struct {
	lookupState
	hit    bool
	writer http.ResponseWriter
	primes []*http.Request // concrete matching requests interleaved with the request under test
}

func SetupC16Alloc() any {
	set := corpusSet(sym.Param("set"))
	st := &allocState{writer: &nullWriter{h: http.Header{}}}
	if sym.ParamOr("rich", 0) == 1 {
		// a writer with the optional capabilities of net/http's (flush, read-from): still no allocation per request
		st.writer = &capableNullWriter{nullWriter{h: http.Header{}}}
	}
	r, err := fox.New()
	if err != nil {
		panic(err)
	}
	h := func(c fox.Context) { st.hit = true }
	for _, rt := range set.Routes {
		if _, err := r.Handle(rt.Method, rt.Pattern, h, fox.WithIgnoreTrailingSlash(true)); err != nil {
			panic(err)
		}
	}
	st.set = set
	st.r = r
	st.ref = newRefRouter(set)
	// interleaved traffic: trailing-slash and direct matches of other routes (fewest parameters first), so that
	// buffers of the recycled context are left in the state another request shape produces
	for want := 0; want <= 3 && len(st.primes) < 3; want++ {
		for _, rt := range set.Routes {
			if rt.Pattern[0] != '/' {
				continue
			}
			var ps []kv
			for _, t := range tokens(rt.Pattern) {
				if t.kind != tkStatic {
					ps = append(ps, kv{t.name, "q"})
				}
			}
			if len(ps) != want {
				continue
			}
			direct, _ := substitute(rt.Pattern, ps)
			if hasEmptySegment(direct) || direct == "/" {
				continue
			}
			st.primes = append(st.primes, &http.Request{Method: rt.Method, URL: &url.URL{Path: toggleSlash(direct)}})
			if len(st.primes) >= 3 {
				break
			}
		}
	}
	return st
}

// HarnessC16Alloc: in steady state, serving a matching request performs no heap allocation in the router.
func HarnessC16Alloc(st any) {
	s := st.(*allocState)
	method := s.set.Routes[0].Method
	lh := sym.Param("lh")
	if lh > 0 && s.ref.method(method).hostTrie == nil {
		return
	}
	host := sym.String("host", lh)
	lp := sym.Param("lp")
	path := "/" + sym.String("path", lp-1)
	sym.Assume(!hasEmptySegment(path))
	req := &http.Request{Method: method, Host: host, URL: &url.URL{Path: path}}
	if sym.ParamOr("raw", 0) == 1 {
		for i := 0; i < len(path); i++ {
			sym.Assume(sym.ByteIn(path[i], rawPathBytes))
		}
		dec, ok := pctDecode(path)
		sym.Assume(ok && dec != path)
		req.URL.Path, req.URL.RawPath = dec, path
		sym.Cover("percent-encoded matching request")
	}

	// one round = the interleaved concrete requests, then the request under test
	round := func() {
		for _, p := range s.primes {
			s.r.ServeHTTP(s.writer, p)
		}
		s.hit = false
		s.r.ServeHTTP(s.writer, req)
	}
	// warm-up: one full round (pooled contexts exist afterwards, buffers have been through every shape)
	round()
	if !s.hit {
		return // not a matching request (404 etc. is outside the statement)
	}
	sym.Cover("matching request served")
	msg := "allocation event while routing a matching request in steady state"
	if s.ref.method(method).hostTrie != nil && hasColon(host) && splitHostPortFails(host) {
		// separate obligation: malformed host:port (net.SplitHostPort returns an allocated *AddrError)
		msg = "allocation event while routing a matching request whose Host is not a valid host:port"
	}
	if sym.Symbolic() {
		before := sym.AllocMark()
		round()
		after := sym.AllocMark()
		sym.Assert(after == before, msg)
		return
	}
	if nativeAllocs != nil {
		n := nativeAllocs(round)
		sym.Assert(n == 0, msg)
	}
}

func hasColon(h string) bool {
	for i := 0; i < len(h); i++ {
		if h[i] == ':' {
			return true
		}
	}
	return false
}

func indexFrom(s string, from int, c byte) int {
	for i := from; i < len(s); i++ {
		if s[i] == c {
			return i
		}
	}
	return -1
}

// splitHostPortFails mirrors the documented error conditions of net.SplitHostPort.
func splitHostPortFails(hp string) bool {
	i := -1
	for k := len(hp) - 1; k >= 0; k-- {
		if hp[k] == ':' {
			i = k
			break
		}
	}
	if i < 0 {
		return true // missing port
	}
	j, k := 0, 0
	if hp[0] == '[' {
		end := indexFrom(hp, 0, ']')
		if end < 0 {
			return true // missing ']'
		}
		if end+1 == len(hp) {
			return true // missing port
		}
		if end+1 != i {
			return true // too many colons or missing port
		}
		j, k = 1, end+1
	} else {
		if indexFrom(hp[:i], 0, ':') >= 0 {
			return true // too many colons
		}
	}
	if indexFrom(hp, j, '[') >= 0 {
		return true
	}
	if indexFrom(hp, k, ']') >= 0 {
		return true
	}
	return false
}

// capableNullWriter is an allocation-free writer that also offers the optional interfaces the real server's does.
type capableNullWriter struct{ nullWriter }

func (w *capableNullWriter) FlushError() error { return nil }
func (w *capableNullWriter) Flush()            {}
func (w *capableNullWriter) ReadFrom(src io.Reader) (int64, error) {
	return 0, nil
}
