package harness

import (
	"errors"
	"net/http"
	"net/url"

	"github.com/tigerwill90/fox"
	"verif/harness/sym"
)

type c05State struct {
	set RouteSet
	r   *fox.Router
	hit []string
}

func SetupC05Conc() any {
	set := corpusSet(sym.Param("set"))
	st := &c05State{set: set}
	var opts []fox.GlobalOption
	if sym.ParamOr("scenario", 0) == 9 {
		opts = append(opts, fox.WithNoMethod(true))
	}
	r, err := fox.New(opts...)
	if err != nil {
		panic(err)
	}
	for _, rt := range set.Routes {
		if _, err := r.Handle(rt.Method, rt.Pattern, noopHandler); err != nil {
			panic(err)
		}
	}
	if sym.ParamOr("scenario", 0) == 9 {
		if _, err := r.Handle("POST", "/flip/x", noopHandler); err != nil {
			panic(err)
		}
	}
	st.r = r
	return st
}

var c05Pool = []string{"/s/a", "/a/new", "/a/{n}/z", "/q", "/ab/q", "/{n}/q", "/*{n}"}

func serveStatus(r *fox.Router, method, path string) int {
	w := &nullWriter{h: http.Header{}}
	r.ServeHTTP(w, &http.Request{Method: method, Host: "h", URL: &url.URL{Path: path}})
	return w.status
}

// HarnessC05Conc: concurrent writers and readers under every sync-granularity interleaving (bounded
// pre-emptions), with the happens-before race monitor on.
func HarnessC05Conc(st any) {
	s := st.(*c05State)
	r := s.r
	scenario := sym.Param("scenario")
	base := r.Len()
	h200 := func(c fox.Context) { c.Writer().WriteHeader(200) }
	sym.Threads(sym.Param("preempt"))
	switch scenario {
	case 0: // two writers, different new routes: no lost update
		p1 := c05Pool[sym.Choose("p1", len(c05Pool))]
		p2 := c05Pool[sym.Choose("p2", len(c05Pool))]
		sym.Assume(p1 != p2 && !conflicts(p1, p2) && !conflicts(p2, p1))
		var e1, e2 error
		sym.Go(func() { _, e1 = r.Handle("POST", p1, noopHandler) })
		sym.Go(func() { _, e2 = r.Handle("POST", p2, noopHandler) })
		sym.Join()
		sym.Assert(e1 == nil && e2 == nil, "both concurrent Handle calls succeed")
		sym.Assert(r.Has("POST", p1) && r.Has("POST", p2) && r.Len() == base+2, "no committed write is lost")
		sym.Cover("W||W different routes")
	case 1: // two writers, same new route: exactly one wins
		p := c05Pool[sym.Choose("p", len(c05Pool))]
		var e1, e2 error
		sym.Go(func() { _, e1 = r.Handle("POST", p, noopHandler) })
		sym.Go(func() { _, e2 = r.Handle("POST", p, noopHandler) })
		sym.Join()
		ok1, ok2 := e1 == nil, e2 == nil
		sym.Assert(ok1 != ok2, "exactly one of two concurrent Handle calls of the same route succeeds")
		if !ok1 {
			sym.Assert(errors.Is(e1, fox.ErrRouteExist), "the loser gets ErrRouteExist")
		}
		if !ok2 {
			sym.Assert(errors.Is(e2, fox.ErrRouteExist), "the loser gets ErrRouteExist")
		}
		sym.Assert(r.Has("POST", p) && r.Len() == base+1, "the route is registered once")
		sym.Cover("W||W same route")
	case 2: // Update || Delete of an existing route: some total order explains the results
		target := s.set.Routes[0]
		var eu, ed error
		sym.Go(func() { _, eu = r.Update(target.Method, target.Pattern, h200) })
		sym.Go(func() { _, ed = r.Delete(target.Method, target.Pattern) })
		sym.Join()
		sym.Assert(ed == nil, "the concurrent Delete of an existing route succeeds")
		sym.Assert(eu == nil || errors.Is(eu, fox.ErrRouteNotFound), "the concurrent Update succeeds (before the delete) or reports ErrRouteNotFound (after it)")
		sym.Assert(!r.Has(target.Method, target.Pattern) && r.Len() == base-1, "the route is gone afterwards")
		sym.Cover("Update||Delete")
	case 3: // multi-route transaction || reader: all or nothing, and monotonic
		var seenA1, seenB1, seenA2 bool
		var snapCount int
		sym.Go(func() {
			_ = r.Updates(func(txn *fox.Txn) error {
				if _, err := txn.Handle("POST", "/t1", noopHandler); err != nil {
					return err
				}
				_, err := txn.Handle("POST", "/t2", noopHandler)
				return err
			})
		})
		sym.Go(func() {
			seenA1 = r.Has("POST", "/t1")
			seenB1 = r.Has("POST", "/t2")
			it := r.Iter()
			for m := range it.All() {
				if m == "POST" {
					snapCount++
				}
			}
			seenA2 = r.Has("POST", "/t1")
		})
		sym.Join()
		sym.Assert(!seenA1 || seenB1, "a reader that saw the first write of a transaction sees the second one afterwards")
		sym.Assert(snapCount == 0 || snapCount == 2, "a snapshot contains all writes of a transaction or none")
		sym.Assert(!seenA1 || seenA2, "a reader never observes an older version after a newer one")
		sym.Assert(r.Has("POST", "/t1") && r.Has("POST", "/t2"), "the transaction is committed")
		sym.Cover("txn||reader")
	case 4: // writer || two requests on routes sharing nodes
		p := c05Pool[sym.Choose("p", len(c05Pool))]
		target := s.set.Routes[0]
		for _, rt := range s.set.Routes {
			if rt.Pattern[0] == '/' && !hasWildcard(rt.Pattern) {
				target = rt // a static path-only route: its pattern is also a request path
				break
			}
		}
		var s1, s2 int
		sym.Go(func() { _, _ = r.Handle("GET", p, h200) })
		sym.Go(func() { s1 = serveStatus(r, target.Method, target.Pattern) })
		sym.Go(func() { s2 = serveStatus(r, target.Method, target.Pattern) })
		sym.Join()
		_ = s1
		_ = s2
		rte, _ := r.Reverse(target.Method, "h", target.Pattern)
		sym.Assert(rte != nil, "an existing route stays routable while a sibling is inserted")
		sym.Cover("W||R||R")
	case 6: // Update of a route with children + write below it in one transaction || reader
		var parent R
		found := false
		for _, rt := range s.set.Routes {
			for _, other := range s.set.Routes {
				if !found && rt.Pattern[0] == '/' && !hasWildcard(rt.Pattern) && len(other.Pattern) > len(rt.Pattern) && hasPrefixStr(other.Pattern, rt.Pattern+"/") {
					parent, found = rt, true
				}
			}
		}
		if !found {
			return
		}
		child := parent.Pattern + "/zz9"
		var sawChild, sawMarker bool
		sym.Go(func() {
			_ = r.Updates(func(txn *fox.Txn) error {
				if _, err := txn.Handle("POST", "/marker", noopHandler); err != nil {
					return err
				}
				if _, err := txn.Update(parent.Method, parent.Pattern, h200); err != nil {
					return err
				}
				_, err := txn.Handle(parent.Method, child, h200)
				return err
			})
		})
		sym.Go(func() {
			sawChild = r.Has(parent.Method, child)
			sawMarker = r.Has("POST", "/marker")
		})
		sym.Join()
		sym.Assert(!sawChild || sawMarker, "a reader never sees a later write of a transaction without its earlier ones")
		sym.Assert(r.Has(parent.Method, child) && r.Has("POST", "/marker"), "the transaction is committed")
		sym.Cover("update+write-below||reader")
	case 7: // Truncate(method) + re-registration in one transaction || reader
		var target R
		for _, rt := range s.set.Routes {
			if rt.Pattern[0] == '/' {
				target = rt
			}
		}
		if target.Pattern == "" {
			return
		}
		has, lenOK := true, true
		sym.Go(func() {
			_ = r.Updates(func(txn *fox.Txn) error {
				if err := txn.Truncate(target.Method); err != nil {
					return err
				}
				for _, rt := range s.set.Routes {
					if _, err := txn.Handle(rt.Method, rt.Pattern, noopHandler); err != nil {
						return err
					}
				}
				return nil
			})
		})
		sym.Go(func() {
			has = r.Has(target.Method, target.Pattern)
			lenOK = r.Len() == base
		})
		sym.Join()
		sym.Assert(has && lenOK, "a reader never sees the truncated intermediate state of a transaction")
		sym.Assert(r.Len() == base && r.Has(target.Method, target.Pattern), "the transaction is committed")
		sym.Cover("truncate+refill||reader")
	case 8: // Delete of one route || Handle of another: neither committed write is lost
		p := c05Pool[sym.Choose("p", len(c05Pool))]
		target := s.set.Routes[0]
		var ed, eh error
		sym.Go(func() { _, ed = r.Delete(target.Method, target.Pattern) })
		sym.Go(func() { _, eh = r.Handle("POST", p, noopHandler) })
		sym.Join()
		sym.Assert(ed == nil && eh == nil, "the concurrent Delete and Handle both succeed")
		sym.Assert(!r.Has(target.Method, target.Pattern) && r.Has("POST", p) && r.Len() == base, "no committed write is lost (Delete || Handle)")
		sym.Cover("Delete||Handle")
	case 9: // a route moves from POST to GET in one transaction || a GET request (405 handling on): one tree per request
		var status int
		var allow string
		sym.Go(func() {
			_ = r.Updates(func(txn *fox.Txn) error {
				if _, err := txn.Delete("POST", "/flip/x"); err != nil {
					return err
				}
				_, err := txn.Handle("GET", "/flip/x", h200)
				return err
			})
		})
		sym.Go(func() {
			w := &nullWriter{h: http.Header{}}
			r.ServeHTTP(w, &http.Request{Method: "GET", Host: "h", URL: &url.URL{Path: "/flip/x"}})
			status, allow = w.status, w.h.Get("Allow")
		})
		sym.Join()
		sym.Assert(status == 200 || (status == 405 && allow == "POST"), "a request is answered from one published routing state (200 after the move, 405 Allow: POST before it)")
		sym.Assert(r.Has("GET", "/flip/x") && !r.Has("POST", "/flip/x"), "the transaction is committed")
		sym.Cover("method move||request")
	case 10: // a write transaction that settles a snapshot of itself half way || another writer: no lost update
		p := c05Pool[sym.Choose("p", len(c05Pool))]
		settle := sym.Choose("settle", 2)
		var eh error
		sym.Go(func() {
			txn := r.Txn(true)
			_, _ = txn.Handle("POST", "/snap/a", noopHandler)
			snap := txn.Snapshot()
			if settle == 0 {
				snap.Abort()
			} else {
				snap.Commit()
			}
			_, _ = txn.Handle("POST", "/snap/b", noopHandler)
			txn.Commit()
		})
		sym.Go(func() { _, eh = r.Handle("POST", p, noopHandler) })
		sym.Join()
		sym.Assert(eh == nil, "the concurrent Handle succeeds")
		sym.Assert(r.Has("POST", "/snap/a") && r.Has("POST", "/snap/b") && r.Has("POST", p) && r.Len() == base+3, "no committed write is lost when a transaction settles a snapshot of itself")
		sym.Cover("txn with settled snapshot||writer")
	case 5: // aborted transaction || reader
		var saw bool
		sym.Go(func() {
			txn := r.Txn(true)
			_, _ = txn.Handle("POST", "/ghost", noopHandler)
			_ = txn.Truncate("GET")
			txn.Abort()
		})
		sym.Go(func() {
			saw = r.Has("POST", "/ghost") || r.Len() != base
		})
		sym.Join()
		sym.Assert(!saw, "writes of an aborted transaction are never visible")
		sym.Assert(r.Len() == base && !r.Has("POST", "/ghost"), "an aborted transaction leaves the router unchanged")
		sym.Cover("abort||reader")
	}
}

// HarnessC13Conc: two goroutines create routes with route-specific middleware concurrently.
func HarnessC13Conc() {
	g := sym.Param("g")
	t := &tracer{}
	var opts []fox.GlobalOption
	api := sym.Param("api") // 0 WithMiddleware, 1 WithMiddlewareFor, 2 WithMiddleware then DefaultOptions
	for i := 0; i < g; i++ {
		if api == 1 {
			opts = append(opts, fox.WithMiddlewareFor(fox.AllHandlers, t.mw(i)))
		} else {
			opts = append(opts, fox.WithMiddleware(t.mw(i)))
		}
	}
	if api == 2 {
		opts = append(opts, fox.DefaultOptions())
	}
	r, err := fox.New(opts...)
	if err != nil {
		panic(err)
	}
	sym.Threads(1)
	var r1, r2 *fox.Route
	sym.Go(func() { r1, _ = r.NewRoute("/one", noopHandler, fox.WithMiddleware(passMW)) })
	sym.Go(func() { r2, _ = r.NewRoute("/two", noopHandler, fox.WithMiddleware(passMW)) })
	sym.Join()
	sym.Assert(r1 != nil && r2 != nil, "routes created")
	sym.Cover("concurrent NewRoute")
}

// HarnessC12Conc: two concurrent requests each see their own data.
func HarnessC12Conc(st any) {
	s := st.(*c12State)
	sym.ThreadsPool(2)
	ok1, ok2 := true, true
	s.behave = func(c fox.Context) {
		id := c.Param("id")
		good := c.Request().URL.Path == "/u/"+id && c.Header("X-Tok") == "h"+id && c.Writer().Status() == 200 && !c.Writer().Written()
		c.Writer().WriteHeader(201)
		if id == "a" {
			ok1 = ok1 && good
		} else {
			ok2 = ok2 && good
		}
	}
	mk := func(id string) *http.Request {
		return &http.Request{Method: "GET", Host: "h", URL: &url.URL{Path: "/u/" + id}, Header: http.Header{"X-Tok": {"h" + id}}}
	}
	// before the two requests: uses of the context pool that end early or go through a sub-context (an iterator
	// loop left at its first match, a direct match through an infix catch-all route) must give back each context once
	quiet := s.behave
	s.behave = nil
	serveCapture(s.r, &http.Request{Method: "GET", Host: "h", URL: &url.URL{Path: "/f/a/b/z"}, Header: http.Header{}})
	s.behave = quiet
	it := s.r.Iter()
	for range it.Reverse(it.Methods(), "h", "/u/x") {
		break
	}
	sym.Go(func() { serveCapture(s.r, mk("a")) })
	sym.Go(func() { serveCapture(s.r, mk("b")) })
	sym.Join()
	sym.Assert(ok1 && ok2, "concurrent requests each observe only their own data")
	sym.Cover("concurrent requests")
}

func SetupC12Conc() any { return SetupC12History() }

func hasWildcard(p string) bool {
	for i := 0; i < len(p); i++ {
		if p[i] == '{' || p[i] == '*' {
			return true
		}
	}
	return false
}
