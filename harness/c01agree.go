package harness

import (
	"net/http"
	"net/url"

	"github.com/tigerwill90/fox"
	"verif/harness/sym"
)

// nullWriter is an allocation-free http.ResponseWriter stub.
type nullWriter struct {
	h      http.Header
	status int
	n      int
}

func (w *nullWriter) Header() http.Header         { return w.h }
func (w *nullWriter) Write(p []byte) (int, error) { w.n += len(p); return len(p), nil }
func (w *nullWriter) WriteHeader(code int)        { w.status = code }

type agreeState struct {
	lookupState
	served     *fox.Route
	servedTsr  bool
	servedPs   []kv
	servedHit  bool
	writer     *nullWriter
	routerOpts bool
	prime      *http.Request // a request served through an ignored trailing slash with parameters (nil: none in this set)
}

func SetupC01Agree() any {
	set := corpusSet(sym.Param("set"))
	st := &agreeState{writer: &nullWriter{h: http.Header{}}}
	r, err := fox.New()
	if err != nil {
		panic(err)
	}
	h := func(c fox.Context) {
		st.servedHit = true
		st.served = c.Route()
		st.servedPs = collectParams(c)
	}
	for _, rt := range set.Routes {
		// per-route ignore-trailing-slash makes ServeHTTP expose the tsr selection too
		route, err := r.Handle(rt.Method, rt.Pattern, h, fox.WithIgnoreTrailingSlash(true))
		if err != nil {
			panic(err)
		}
		st.routes = append(st.routes, route)
	}
	st.set = set
	st.r = r
	st.ref = newRefRouter(set)
	// a priming request: matches a route with parameters only by toggling the trailing slash; serving it leaves
	// trailing-slash state and parameters in the pooled context the request under test reuses
	for _, rt := range set.Routes {
		if rt.Pattern[0] != '/' || rt.Method != set.Routes[0].Method {
			continue
		}
		ps := []kv{}
		for _, t := range tokens(rt.Pattern) {
			if t.kind != tkStatic {
				ps = append(ps, kv{t.name, "pv"})
			}
		}
		if len(ps) == 0 {
			continue
		}
		direct, _ := substitute(rt.Pattern, ps)
		cand := toggleSlash(direct)
		if res := st.ref.lookup(rt.Method, "", cand, true); !res.ambiguous && res.route != nil && res.tsr && cand != "/" {
			st.prime = &http.Request{Method: rt.Method, URL: &url.URL{Path: cand}}
			break
		}
	}
	return st
}

// HarnessC01Agree: ServeHTTP, Lookup, Reverse, Iter.Reverse and the Txn variants select the same route.
func HarnessC01Agree(st any) {
	s := st.(*agreeState)
	method := s.set.Routes[0].Method
	lh := sym.Param("lh")
	if lh > 0 && s.ref.method(method).hostTrie == nil {
		return
	}
	host := sym.String("host", lh)
	lp := sym.Param("lp")
	path := "/" + sym.String("path", lp-1)
	sym.Assume(!hasEmptySegment(path))
	req := &http.Request{Method: method, Host: host, URL: &url.URL{Path: path}}

	rte, cc, tsr := s.r.Lookup(nil, req)
	var ps []kv
	if cc != nil {
		ps = collectParams(cc)
		cc.Close()
	}
	if rte != nil {
		sym.Cover("lookup matched")
	}
	if tsr {
		sym.Cover("lookup tsr")
	}

	// Reverse
	r2, tsr2 := s.r.Reverse(method, host, path)
	sym.Assert(r2 == rte && tsr2 == tsr, "Router.Reverse agrees with Router.Lookup")

	// Iter.Reverse (reports tsr matches only when the route ignores/redirects trailing slashes: all do here)
	var r3 *fox.Route
	n3 := 0
	it := s.r.Iter()
	for _, route := range it.Reverse(seqOf(method), host, path) {
		r3 = route
		n3++
	}
	sym.Assert(n3 <= 1 && r3 == rte, "Iter.Reverse agrees with Router.Lookup")

	// read-only transaction
	txn := s.r.Txn(false)
	r4, cc4, tsr4 := txn.Lookup(nil, req)
	var ps4 []kv
	if cc4 != nil {
		ps4 = collectParams(cc4)
		cc4.Close()
	}
	sym.Assert(r4 == rte && tsr4 == tsr && sameParams(ps4, ps), "Txn.Lookup (read-only) agrees with Router.Lookup")
	r5, tsr5 := txn.Reverse(method, host, path)
	sym.Assert(r5 == rte && tsr5 == tsr, "Txn.Reverse (read-only) agrees with Router.Lookup")
	txn.Abort()

	// write transaction (no writes)
	wtxn := s.r.Txn(true)
	r6, cc6, tsr6 := wtxn.Lookup(nil, req)
	var ps6 []kv
	if cc6 != nil {
		ps6 = collectParams(cc6)
		cc6.Close()
	}
	r7, tsr7 := wtxn.Reverse(method, host, path)
	wtxn.Abort()
	sym.Assert(r6 == rte && tsr6 == tsr && sameParams(ps6, ps), "Txn.Lookup (write) agrees with Router.Lookup")
	sym.Assert(r7 == rte && tsr7 == tsr, "Txn.Reverse (write) agrees with Router.Lookup")

	// ServeHTTP: every route ignores trailing slashes, so the handler runs for direct and tsr matches
	// (except path "/" and CONNECT, which never take a trailing-slash action).
	if s.prime != nil {
		// three times: whichever pooled context the runtime hands out next has served the priming request
		for k := 0; k < 3; k++ {
			s.r.ServeHTTP(s.writer, s.prime)
		}
		sym.Cover("primed with an ignored trailing-slash match")
	}
	s.servedHit, s.served, s.servedPs = false, nil, nil
	s.writer.status = 0
	s.r.ServeHTTP(s.writer, req)
	if rte != nil && (!tsr || path != "/") {
		sym.Assert(s.servedHit && s.served == rte, "ServeHTTP serves the route Lookup selects")
		if s.servedHit && s.served == rte {
			sym.Assert(sameParams(s.servedPs, ps), "ServeHTTP exposes the parameters Lookup reports")
		}
	} else {
		sym.Assert(!s.servedHit, "ServeHTTP serves no route when Lookup selects none")
	}
}

func seqOf(ms ...string) func(yield func(string) bool) {
	return func(yield func(string) bool) {
		for _, m := range ms {
			if !yield(m) {
				return
			}
		}
	}
}
