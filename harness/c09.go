package harness

import (
	"net/http"
	"net/url"

	"verif/harness/sym"
)

// SetupC09Host builds the corpus router; with hist=1 every hostname of the set is additionally extended by a
// label ("a.b" -> "a.b.zz/zq", "zz9.a.b/zq"), registered and deleted again before the lookups (the registered
// set is the same, the tree went through the hostname split/merge paths of insert and remove).
func SetupC09Host() any {
	st := SetupC01Lookup().(*lookupState)
	if sym.ParamOr("hist", 0) == 1 {
		for _, rt := range st.set.Routes {
			slash := 0
			for rt.Pattern[slash] != '/' {
				slash++
			}
			if slash == 0 {
				continue
			}
			for _, extra := range []string{rt.Pattern[:slash] + ".zz/zq", "zz9." + rt.Pattern[:slash] + "/zq", rt.Pattern[:slash] + "/zq/{zz}"} {
				if st.r.Has(rt.Method, extra) {
					continue
				}
				if _, err := st.r.Handle(rt.Method, extra, noopHandler); err != nil {
					continue
				}
				if _, err := st.r.Delete(rt.Method, extra); err != nil {
					panic(err)
				}
			}
		}
	}
	return st
}

// HarnessC09Host: hostname routes match the whole host (port and one trailing dot removed), path-only
// routes are the fallback, and a method without hostname routes ignores the Host altogether.
func HarnessC09Host(st any) {
	s := st.(*lookupState)
	method := s.set.Routes[0].Method
	lh := sym.Param("lh")
	host := sym.String("host", lh)
	lp := sym.Param("lp")
	path := "/" + sym.String("path", lp-1)
	sym.Assume(!hasEmptySegment(path))
	req := &http.Request{Method: method, Host: host, URL: &url.URL{Path: path}}
	hostMode := s.ref.method(method).hostTrie != nil

	// every hostname route of the set is looked up first with its own substituted request (three rounds, so that
	// every pooled context has walked other hosts before): nothing of those walks may leak into the request under test
	for k := 0; k < 3; k++ {
		for _, rt := range s.set.Routes {
			if rt.Pattern[0] == '/' || rt.Method != method {
				continue
			}
			ps := []kv{}
			for _, t := range tokens(rt.Pattern) {
				if t.kind != tkStatic {
					ps = append(ps, kv{t.name, "pv"})
				}
			}
			full, _ := substitute(rt.Pattern, ps)
			slash := 0
			for full[slash] != '/' {
				slash++
			}
			if _, pc, _ := s.r.Lookup(nil, &http.Request{Method: method, Host: full[:slash], URL: &url.URL{Path: full[slash:]}}); pc != nil {
				pc.Close()
			}
		}
	}
	rte, cc, tsr := s.r.Lookup(nil, req)
	defer func() {
		if cc != nil {
			cc.Close()
		}
	}()
	want := s.ref.lookup(method, host, path, true)
	if want.ambiguous {
		return
	}
	if !hostMode {
		sym.Cover("host ignored (no hostname routes)")
	}
	// the reverse lookup (no parameter recording) decides hosts exactly like the request lookup
	rr, rtsr := s.r.Reverse(method, host, path)
	if want.route == nil {
		sym.Assert(rte == nil, "no route matches this host and path, directly or slash-adjusted")
		sym.Assert(rr == nil, "Reverse: no route matches this host and path, directly or slash-adjusted")
		return
	}
	sym.Assert(rr != nil && rr.Pattern() == want.route.pattern && rtsr == want.tsr, "Reverse: hostname routes first (whole host), path-only routes as fallback")
	// the same through a transaction and through an iterator
	txn := s.r.Txn(false)
	tr, tcc, ttsr := txn.Lookup(nil, req)
	if tcc != nil {
		tcc.Close()
	}
	tv, tvtsr := txn.Reverse(method, host, path)
	txn.Abort()
	sym.Assert(tr == rte && ttsr == tsr && tv == rr && tvtsr == rtsr, "Txn.Lookup / Txn.Reverse decide hosts like the router")
	sym.Assert(rte != nil, "a route matches this host and path")
	if rte == nil {
		return
	}
	sym.Assert(tsr == want.tsr, "direct vs trailing-slash outcome")
	sym.Assert(rte.Pattern() == want.route.pattern, "hostname routes first (whole host), path-only routes as fallback")
	if rte.Pattern() != want.route.pattern || tsr != want.tsr {
		return
	}
	if want.viaHost {
		sym.Cover("matched via hostname")
		stripped, _ := refStripHost(host)
		if len(stripped) < len(host) {
			if host[len(host)-1] == '.' {
				sym.Cover("host with trailing dot matched")
			} else {
				sym.Cover("host with port matched")
			}
		}
		got := collectParams(cc)
		sub, ok := substitute(rte.Pattern(), got)
		target := path
		if tsr {
			target = toggleSlash(path)
		}
		sym.Assert(ok && sub == stripped+target, "hostname parameters reproduce the request host label for label")
	} else if hostMode {
		sym.Cover("fallback to path-only")
	}
}
