package harness

// R-map: the registered routes as an association list keyed by (method, pattern), with the documented
// error rules and the wildcard-conflict rule. Shares no code with fox.

import (
	"github.com/tigerwill90/fox"
)

type mentry struct {
	method  string
	pattern string
	route   *fox.Route
}

type refMap struct {
	ents []mentry
}

func (m *refMap) clone() *refMap {
	return &refMap{ents: append([]mentry(nil), m.ents...)}
}

func (m *refMap) find(method, pattern string) int {
	for i := range m.ents {
		if m.ents[i].method == method && m.ents[i].pattern == pattern {
			return i
		}
	}
	return -1
}

func validMethod(s string) bool {
	if s == "" {
		return false
	}
	for i := 0; i < len(s); i++ {
		if s[i] < 'A' || s[i] > 'Z' {
			return false
		}
	}
	return true
}

// token kinds of a pattern position
const (
	tkStatic = iota
	tkParam
	tkCatch
)

type ptoken struct {
	kind int
	c    byte   // static byte
	name string // wildcard name
}

// tokens splits a VALID pattern into tokens.
func tokens(p string) []ptoken {
	var out []ptoken
	i := 0
	for i < len(p) {
		c := p[i]
		if c == '{' || (c == '*' && i+1 < len(p) && p[i+1] == '{') {
			k := tkParam
			j := i
			if c == '*' {
				k = tkCatch
				j++
			}
			e := j + 1
			for p[e] != '}' {
				e++
			}
			out = append(out, ptoken{kind: k, name: p[j+1 : e]})
			i = e + 1
			continue
		}
		out = append(out, ptoken{kind: tkStatic, c: c})
		i++
	}
	return out
}

// conflicts reports whether valid patterns a (new) and b (registered) conflict: after an identical
// token prefix both declare a wildcard of the same kind under different names.
func conflicts(a, b string) bool {
	ta, tb := tokens(a), tokens(b)
	for i := 0; i < len(ta) && i < len(tb); i++ {
		x, y := ta[i], tb[i]
		if x.kind != y.kind {
			return false
		}
		if x.kind == tkStatic {
			if x.c != y.c {
				return false
			}
			continue
		}
		if x.name != y.name {
			return true
		}
	}
	return false
}

type opResult struct {
	errKind   int // 0 ok, 1 ErrInvalidRoute, 2 ErrRouteExist, 3 ErrRouteConflict, 4 ErrRouteNotFound
	matched   []string
	ambiguous bool
}

const (
	eOK = iota
	eInvalid
	eExist
	eConflict
	eNotFound
)

// handle predicts Router.Handle(method, pattern, h).
func (m *refMap) handle(method, pattern string, maxParams, maxKey int) opResult {
	if !validMethod(method) {
		return opResult{errKind: eInvalid}
	}
	g := refGrammar(pattern, maxParams, maxKey)
	if g.v == gDontCare {
		return opResult{ambiguous: true}
	}
	if g.v == gReject {
		return opResult{errKind: eInvalid}
	}
	if m.find(method, pattern) >= 0 {
		return opResult{errKind: eExist}
	}
	var matched []string
	for _, e := range m.ents {
		if e.method == method && conflicts(pattern, e.pattern) {
			matched = append(matched, e.pattern)
		}
	}
	if len(matched) > 0 {
		return opResult{errKind: eConflict, matched: matched}
	}
	return opResult{}
}

// update predicts Router.Update / Router.Delete preconditions.
func (m *refMap) lookupForChange(method, pattern string, maxParams, maxKey int) opResult {
	if method == "" {
		return opResult{errKind: eInvalid}
	}
	g := refGrammar(pattern, maxParams, maxKey)
	if g.v == gDontCare {
		return opResult{ambiguous: true}
	}
	if g.v == gReject {
		return opResult{errKind: eInvalid}
	}
	if m.find(method, pattern) < 0 {
		return opResult{errKind: eNotFound}
	}
	return opResult{}
}

func (m *refMap) truncate(methods ...string) {
	var keep []mentry
	for _, e := range m.ents {
		drop := len(methods) == 0
		for _, x := range methods {
			if x == e.method {
				drop = true
			}
		}
		if !drop {
			keep = append(keep, e)
		}
	}
	m.ents = keep
}

func (m *refMap) methods() []string {
	var out []string
	for _, e := range m.ents {
		dup := false
		for _, x := range out {
			if x == e.method {
				dup = true
			}
		}
		if !dup {
			out = append(out, e.method)
		}
	}
	return out
}

func sameStringSet(a, b []string) bool {
	if len(a) != len(b) {
		return false
	}
	for _, x := range a {
		n := 0
		for _, y := range b {
			if x == y {
				n++
			}
		}
		m := 0
		for _, y := range a {
			if x == y {
				m++
			}
		}
		if n != m {
			return false
		}
	}
	return true
}

func hasPrefixStr(s, p string) bool {
	return len(s) >= len(p) && s[:len(p)] == p
}
