package harness

import (
	"net/http"
	"net/url"

	"github.com/tigerwill90/fox"
	"verif/harness/sym"
)

type dispatchState struct {
	set      RouteSet
	p        *probeRouter
	ref      *refRouter
	ignore   map[string]bool
	redirect map[string]bool
}

var dispatchMethods = []string{"GET", "POST", "CONNECT"}

// SetupC08Dispatch registers every corpus pattern under GET, POST and CONNECT with a trailing-slash mode
// per route chosen by the job parameter: 0 all ignore, 1 all redirect, 2 none, 3 mixed by index, 4 router-wide
// redirect with per-route ignore on every third route.
func SetupC08Dispatch() any {
	base := corpusSet(sym.Param("set"))
	mode := sym.Param("mode")
	st := &dispatchState{ignore: map[string]bool{}, redirect: map[string]bool{}}
	var gopts []fox.GlobalOption
	if mode == 4 {
		gopts = append(gopts, fox.WithRedirectTrailingSlash(true))
	}
	if mode == 5 {
		gopts = append(gopts, fox.WithIgnoreTrailingSlash(true)) // router-wide ignore, per-route redirect override
	}
	st.p = newProbeRouter(append(gopts, fox.WithNoMethod(false), fox.WithAutoOptions(false))...)
	for i, rt := range base.Routes {
		ign, red := false, false
		var ropts []fox.RouteOption
		switch mode {
		case 0:
			ign = true
		case 1:
			red = true
		case 3:
			ign, red = i%3 == 0, i%3 == 1
		case 4:
			red = true
			if i%3 == 0 {
				ign, red = true, false
			}
		case 5:
			ign = true
			if i%3 == 1 {
				ign, red = false, true
			}
		}
		if mode == 5 {
			if red {
				ropts = append(ropts, fox.WithRedirectTrailingSlash(true))
			}
		} else if mode != 4 || ign {
			ropts = append(ropts, fox.WithIgnoreTrailingSlash(ign))
			if red {
				ropts = append(ropts, fox.WithRedirectTrailingSlash(true))
			}
		}
		st.ignore[rt.Pattern] = ign
		st.redirect[rt.Pattern] = red
		for _, m := range dispatchMethods {
			mustHandle(st.p, m, rt.Pattern, ropts...)
		}
	}
	st.set = base
	var refSet RouteSet
	for _, rt := range base.Routes {
		refSet.Routes = append(refSet.Routes, R{"GET", rt.Pattern})
	}
	st.ref = newRefRouter(refSet)
	return st
}

// resolveRef resolves a relative reference against the request path per RFC 3986 section 5.2
// (only what a Location of a trailing-slash redirect can contain). ok=false when the reference
// is not a same-authority relative reference.
func resolveRef(basePath, ref string) (path, query string, hasFragment, ok bool) {
	// fragment
	for i := 0; i < len(ref); i++ {
		if ref[i] == '#' {
			hasFragment = true
			ref = ref[:i]
			break
		}
	}
	for i := 0; i < len(ref); i++ {
		if ref[i] == '?' {
			query = ref[i+1:]
			ref = ref[:i]
			break
		}
	}
	// scheme? (a ':' before any '/')
	for i := 0; i < len(ref); i++ {
		if ref[i] == '/' {
			break
		}
		if ref[i] == ':' {
			return "", "", hasFragment, false
		}
	}
	if len(ref) >= 2 && ref[0] == '/' && ref[1] == '/' {
		return "", "", hasFragment, false // network-path reference: another authority
	}
	var merged string
	if len(ref) > 0 && ref[0] == '/' {
		merged = ref
	} else {
		last := 0
		for i := 0; i < len(basePath); i++ {
			if basePath[i] == '/' {
				last = i
			}
		}
		merged = basePath[:last+1] + ref
	}
	// remove_dot_segments
	var out []string
	trailing := false
	i := 0
	for i <= len(merged) {
		j := i
		for j < len(merged) && merged[j] != '/' {
			j++
		}
		seg := merged[i:j]
		lastSeg := j >= len(merged)
		switch seg {
		case ".":
			trailing = lastSeg
		case "..":
			if len(out) > 0 {
				out = out[:len(out)-1]
			}
			trailing = lastSeg
		case "":
			if i > 0 && lastSeg {
				trailing = true
			} else if i > 0 {
				out = append(out, "")
			}
		default:
			out = append(out, seg)
			trailing = false
		}
		i = j + 1
	}
	res := ""
	for _, s := range out {
		res += "/" + s
	}
	if trailing || res == "" {
		res += "/"
	}
	return res, query, hasFragment, true
}

func unhex(c byte) (byte, bool) {
	switch {
	case '0' <= c && c <= '9':
		return c - '0', true
	case 'a' <= c && c <= 'f':
		return c - 'a' + 10, true
	case 'A' <= c && c <= 'F':
		return c - 'A' + 10, true
	}
	return 0, false
}

// pctDecode decodes %XX escapes; ok=false on a malformed escape.
func pctDecode(s string) (string, bool) {
	out := ""
	for i := 0; i < len(s); i++ {
		if s[i] != '%' {
			out += s[i : i+1]
			continue
		}
		if i+2 >= len(s) {
			return "", false
		}
		h, ok1 := unhex(s[i+1])
		l, ok2 := unhex(s[i+2])
		if !ok1 || !ok2 {
			return "", false
		}
		out += string([]byte{h<<4 | l})
		i += 2
	}
	return out, true
}

// HarnessC08Dispatch: what ServeHTTP does with a trailing-slash match: serve (ignore), redirect with a
// Location that resolves to the adjusted path and keeps the query, or treat as unmatched.
func HarnessC08Dispatch(st any) {
	s := st.(*dispatchState)
	method := dispatchMethods[sym.Choose("method", len(dispatchMethods))]
	lp := sym.Param("lp")
	path := "/" + sym.String("path", lp-1)
	if sym.ParamOr("empty", 0) == 1 {
		// paths with empty segments, doubled final slash included (never canonical: never redirected)
		sym.Assume(hasEmptySegment(path))
		sym.Cover("request path with an empty segment")
	} else {
		sym.Assume(!hasEmptySegment(path))
	}
	lq := sym.Param("lq")
	query := sym.String("query", lq)
	for i := 0; i < len(query); i++ {
		sym.Assume(query[i] != '#' && query[i] != ' ' && query[i] > 0x20 && query[i] < 0x7f) // a raw query as a server would hand it over
	}
	req := &http.Request{Method: method, Host: "example.com", URL: &url.URL{Path: path, RawQuery: query}}
	if sym.ParamOr("raw", 0) == 1 {
		// percent-encoded request: the router matches on RawPath; Path is its decoded form
		for i := 0; i < len(path); i++ {
			sym.Assume(sym.ByteIn(path[i], rawPathBytes)) // a RawPath a server can hand over (RFC 3986 pchar / "/" / "%")
		}
		dec, ok := pctDecode(path)
		sym.Assume(ok && dec != path)
		req.URL.Path, req.URL.RawPath = dec, path
		sym.Cover("percent-encoded request path")
	}
	want := s.ref.lookup("GET", "", path, true)
	if want.ambiguous {
		return
	}
	got, status, _ := s.p.serve(req)
	loc := s.p.w.h.Get("Location")
	if want.route == nil {
		sym.Assert(got.kind == "noroute", "no route and no slash-adjusted route: unmatched")
		return
	}
	if !want.tsr {
		sym.Assert(got.kind == "route" && got.pattern == want.route.pattern, "direct match: served by the route")
		return
	}
	pat := want.route.pattern
	switch {
	case method == "CONNECT" || req.URL.Path == "/":
		sym.Cover("tsr but CONNECT: unmatched")
		sym.Assert(got.kind == "noroute", "CONNECT (and \"/\") never take a trailing-slash action")
	case s.ignore[pat]:
		sym.Cover("tsr ignored: served")
		sym.Assert(got.kind == "route" && got.pattern == pat, "the route ignores trailing slashes: it serves the request")
		if !want.infix {
			sym.Assert(sameParams(got.params, want.params), "with the parameters of the adjusted match")
		}
	case s.redirect[pat] && path == refClean(path):
		sym.Cover("tsr redirected")
		wantStatus := 308
		if method == "GET" {
			wantStatus = 301
		}
		sym.Assert(!got.hit && status == wantStatus, "redirect: 301 for GET, 308 otherwise, no route handler runs")
		// (e) Location resolves to the adjusted path, same authority, query kept, no fragment
		rp, rq, frag, ok := resolveRef(path, loc)
		sym.Assert(ok, "(e) Location is a same-authority relative reference")
		if ok {
			dp, okd := pctDecode(rp)
			wantPath := toggleSlash(path)
			if sym.ParamOr("raw", 0) == 1 {
				wantPath, _ = pctDecode(wantPath) // compare decoded octets
			}
			sym.Assert(okd && dp == wantPath, "(e) Location resolves to the slash-adjusted request path")
			sym.Assert(rq == query && !frag, "(e) Location keeps the query string and has no fragment")
		}
	default:
		sym.Cover("tsr neither ignored nor redirected: unmatched")
		sym.Assert(got.kind == "noroute", "otherwise the request is treated as unmatched")
	}
}

// ---- (f) irrelevance -----------------------------------------------------------------------------

var irrelevantPool = []string{"/zz", "/zz/", "/a/zz", "/{zz}/zz", "/zz/*{w}", "/zz{x}", "zz.b/", "/ab/zz/{q}/", "/a/b/zz/"}

type irrState struct {
	set   RouteSet
	a, b  *fox.Router
	extra string
	ok    bool
	refX  *refRouter
}

func SetupC08Irrelevant() any {
	set := corpusSet(sym.Param("set"))
	st := &irrState{set: set, extra: irrelevantPool[sym.Param("extra")]}
	st.a, _ = buildRouter(set)
	st.b, _ = buildRouter(set)
	if _, err := st.b.Handle(set.Routes[0].Method, st.extra, noopHandler); err == nil {
		st.ok = true
	}
	st.refX = newRefRouter(RouteSet{Routes: []R{{set.Routes[0].Method, st.extra}}})
	return st
}

// HarnessC08Irrelevant: a registered route that matches neither the path nor its slash-adjusted form
// never changes the outcome.
func HarnessC08Irrelevant(st any) {
	s := st.(*irrState)
	if !s.ok {
		return // the extra route conflicts with this set
	}
	method := s.set.Routes[0].Method
	lh, lp := sym.Param("lh"), sym.Param("lp")
	host := sym.String("host", lh)
	path := "/" + sym.String("path", lp-1)
	sym.Assume(!hasEmptySegment(path))
	x := s.refX.lookup(method, host, path, true)
	if x.ambiguous || x.route != nil {
		return // the extra route is not irrelevant for this request
	}
	sym.Cover("irrelevant route compared")
	req := &http.Request{Method: method, Host: host, URL: &url.URL{Path: path}}
	ra, ca, ta := s.a.Lookup(nil, req)
	rb, cb, tb := s.b.Lookup(nil, req)
	sym.Assert((ra == nil) == (rb == nil) && ta == tb, "(f) an unrelated route does not change the match / trailing-slash outcome")
	if ra != nil && rb != nil {
		sym.Assert(ra.Pattern() == rb.Pattern(), "(f) an unrelated route does not change the selected route")
		sym.Assert(sameParams(collectParams(ca), collectParams(cb)), "(f) an unrelated route does not change the parameters")
	}
	if ca != nil {
		ca.Close()
	}
	if cb != nil {
		cb.Close()
	}
}

const rawPathBytes = "abcdefghijklmnopqrstuvwxyzABCDEFGHIJKLMNOPQRSTUVWXYZ0123456789-._~!$&'()*+,;=:@/%"
