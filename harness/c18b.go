package harness

import (
	"net"
	"net/http"
	"net/url"

	"github.com/tigerwill90/fox"
	"github.com/tigerwill90/fox/clientip"
	"verif/harness/sym"
)

const (
	clPublic = iota
	clPrivate
	clLoopback
	clLinkLocal
	clInvalid
)

type ipEntry struct {
	xff   string // as written in X-Forwarded-For
	fwd   string // as written in Forwarded
	ip    string // expected *net.IPAddr.String(), "" when the entry is not a usable address
	class int
}

var ipCatalogue = []ipEntry{
	{"8.8.8.8", "for=8.8.8.8", "8.8.8.8", clPublic},
	{"1.2.3.4", "by=9.9.9.9;for=1.2.3.4;proto=https", "1.2.3.4", clPublic},
	{"10.0.0.1", "For=10.0.0.1", "10.0.0.1", clPrivate},
	{"127.0.0.1", "for=127.0.0.1", "127.0.0.1", clLoopback},
	{"2606:4700::1111", `for="[2606:4700::1111]"`, "2606:4700::1111", clPublic},
	{"fe80::1", `for="[fe80::1]:5000"`, "fe80::1", clLinkLocal},
	{"9.9.9.9:443", `FOR="9.9.9.9:443"`, "9.9.9.9", clPublic},
	{"[2001:4860::8888]:80", `for="[2001:4860::8888]:80";by=_hidden`, "2001:4860::8888", clPublic},
	{"", "proto=http", "", clInvalid},
	{"junk", "for=unknown", "", clInvalid},
	{"0.0.0.0", "for=0.0.0.0", "", clInvalid},
	{"fe80::2%eth0", `for="[fe80::2%eth0]"`, "fe80::2%eth0", clLinkLocal},
	{" 7.7.7.7 ", " for=7.7.7.7 ", "7.7.7.7", clPublic},
	{"192.168.1.1", "for=192.168.1.1", "192.168.1.1", clPrivate},
	{"\t5.5.5.5\t", "\tfor=5.5.5.5\t", "5.5.5.5", clPublic}, // optional white space is SP / HTAB
}

func (e ipEntry) defaultTrusted() bool {
	return e.class == clPrivate || e.class == clLoopback || e.class == clLinkLocal
}

// inClasses reports membership for a range configuration given as option bits (1 private, 2 loopback,
// 4 link-local); no bit set means no range option took effect, i.e. the documented default of all three.
func (e ipEntry) inClasses(cfg int) bool {
	if cfg == 0 {
		return e.defaultTrusted()
	}
	return e.class == clPrivate && cfg&1 != 0 || e.class == clLoopback && cfg&2 != 0 || e.class == clLinkLocal && cfg&4 != 0
}

func resolveStr(r fox.ClientIPResolver, c fox.Context) (string, bool) {
	ip, err := r.ClientIP(c)
	if err != nil || ip == nil {
		sym.Assert(err != nil && ip == nil, "a resolver returns an address or an error, never both or neither")
		return "", false
	}
	return ip.String(), true
}

func newIPContext(headerName string, lines []string, remote string) fox.Context {
	h := http.Header{}
	if len(lines) > 0 {
		h[headerName] = lines
	}
	req := &http.Request{Method: "GET", Host: "example.com", RemoteAddr: remote, URL: &url.URL{Path: "/"}, Header: h}
	return fox.NewTestContextOnly(&nullWriter{h: http.Header{}}, req)
}

type trustedRanges []net.IPNet

func (t trustedRanges) TrustedIPRange() ([]net.IPNet, error) { return t, nil }

func mustRanges(ss ...string) []net.IPNet {
	r, err := clientip.AddressesAndRangesToIPNets(ss...)
	if err != nil {
		panic(err)
	}
	return r
}

// HarnessC18Designate: each strategy returns exactly the entry its documentation designates, or an error.
func HarnessC18Designate() {
	k := sym.Param("k")
	useFwd := sym.Param("fwd") == 1
	headerName := "X-Forwarded-For"
	key := clientip.XForwardedForKey
	if useFwd {
		headerName = "Forwarded"
		key = clientip.ForwardedKey
	}
	// entries and their distribution over header instances
	var ents []ipEntry
	var lines []string
	cur := ""
	curN := 0
	for i := 0; i < k; i++ {
		e := ipCatalogue[sym.Choose("e"+string(rune('0'+i)), len(ipCatalogue))]
		ents = append(ents, e)
		item := e.xff
		if useFwd {
			item = e.fwd
		}
		if curN > 0 && sym.Bool("newline"+string(rune('0'+i))) {
			lines = append(lines, cur)
			cur, curN = "", 0
		}
		if curN > 0 {
			cur += ", "
		}
		cur += item
		curN++
	}
	if curN > 0 {
		lines = append(lines, cur)
	}
	c := newIPContext(headerName, lines, "192.0.2.9:4000")

	strategy := sym.Choose("strategy", 4)
	switch strategy {
	case 0: // rightmost trusted count
		n := 1 + sym.Choose("count", 4)
		r, err := clientip.NewRightmostTrustedCount(key, uint(n))
		sym.Assert(err == nil, "resolver created")
		got, ok := resolveStr(r, c)
		idx := len(ents) - n
		if idx < 0 || ents[idx].ip == "" {
			sym.Cover("trusted count: error")
			sym.Assert(!ok, "rightmost-trusted-count fails when the n-th entry from the right is missing or invalid")
		} else {
			sym.Cover("trusted count: designated entry")
			sym.Assert(ok && got == ents[idx].ip, "rightmost-trusted-count returns exactly the n-th entry from the right")
		}
	case 1: // rightmost non private
		cfg := sym.Choose("trust", 8)
		var topts []clientip.TrustedRangeOption
		if sym.ParamOr("ranges", 0) == 1 {
			topts = []clientip.TrustedRangeOption{clientip.TrustPrivateNet(cfg&1 != 0), clientip.TrustLoopback(cfg&2 != 0), clientip.TrustLinkLocal(cfg&4 != 0)}
			if cfg != 0 && cfg != 7 {
				sym.Cover("non private: a strict subset of the range classes configured")
			}
		} else {
			sym.Assume(cfg == 0)
		}
		r, err := clientip.NewRightmostNonPrivate(key, topts...)
		sym.Assert(err == nil, "resolver created")
		got, ok := resolveStr(r, c)
		want := ""
		for i := len(ents) - 1; i >= 0; i-- {
			if ents[i].ip != "" && !ents[i].inClasses(cfg) {
				want = ents[i].ip
				break
			}
		}
		if want == "" {
			sym.Assert(!ok, "rightmost-non-private fails when no valid untrusted address exists")
		} else {
			sym.Cover("non private: designated entry")
			sym.Assert(ok && got == want, "rightmost-non-private returns the rightmost valid address outside the trusted ranges")
		}
	case 2: // rightmost trusted range
		r, err := clientip.NewRightmostTrustedRange(key, trustedRanges(mustRanges("10.0.0.0/8", "127.0.0.1", "8.8.8.8", "fe80::/10")))
		sym.Assert(err == nil, "resolver created")
		got, ok := resolveStr(r, c)
		want, fail := "", true
		for i := len(ents) - 1; i >= 0; i-- {
			e := ents[i]
			trusted := e.ip != "" && (e.class == clLoopback || e.class == clLinkLocal || e.xff == "10.0.0.1" || e.xff == "8.8.8.8")
			if trusted {
				continue
			}
			if e.ip != "" {
				want, fail = e.ip, false
			}
			break
		}
		if fail {
			sym.Cover("trusted range: error")
			sym.Assert(!ok, "rightmost-trusted-range fails when the first untrusted entry from the right is not an address (or none exists)")
		} else {
			sym.Cover("trusted range: designated entry")
			sym.Assert(ok && got == want, "rightmost-trusted-range returns the first entry from the right that is not a trusted address")
		}
	case 3: // leftmost non private
		limit := 1 + sym.Choose("limit", 4)
		cfg := sym.Choose("exclude", 8)
		var bopts []clientip.BlacklistRangeOption
		if sym.ParamOr("ranges", 0) == 1 {
			bopts = []clientip.BlacklistRangeOption{clientip.ExcludePrivateNet(cfg&1 != 0), clientip.ExcludeLoopback(cfg&2 != 0), clientip.ExcludeLinkLocal(cfg&4 != 0)}
		} else {
			sym.Assume(cfg == 0)
		}
		r, err := clientip.NewLeftmostNonPrivate(key, uint(limit), bopts...)
		sym.Assert(err == nil, "resolver created")
		got, ok := resolveStr(r, c)
		want := ""
		for i := 0; i < len(ents) && i < limit; i++ {
			if ents[i].ip != "" && !ents[i].inClasses(cfg) {
				want = ents[i].ip
				break
			}
		}
		if want == "" {
			sym.Assert(!ok, "leftmost-non-private fails when none of the first limit entries qualifies")
		} else {
			sym.Cover("leftmost: designated entry")
			sym.Assert(ok && got == want, "leftmost-non-private returns the first valid non-excluded address among the first limit entries")
		}
	}
}

// HarnessC18Single: single-header uses the last header instance; the chain returns its first success;
// the remote-address resolver parses RemoteAddr.
func HarnessC18Single() {
	a := ipCatalogue[sym.Choose("a", len(ipCatalogue))]
	b := ipCatalogue[sym.Choose("b", len(ipCatalogue))]
	if len(b.xff) > 0 && (b.xff[0] == ' ' || b.xff[0] == '\t') {
		return // surrounding white space in a whole header value is removed by the HTTP server: not specified here
	}
	c := newIPContext("X-Real-Ip", []string{a.xff, b.xff}, "192.0.2.9:4000")
	single, err := clientip.NewSingleIPHeader("x-real-ip")
	sym.Assert(err == nil, "resolver created")
	got, ok := resolveStr(single, c)
	if b.ip == "" {
		sym.Assert(!ok, "single-header fails when its last instance is not an address")
	} else {
		sym.Cover("single header: last instance")
		sym.Assert(ok && got == b.ip, "single-header returns the last header instance")
	}
	// chain: first success
	chain := clientip.NewChain(single, clientip.NewRemoteAddr())
	got, ok = resolveStr(chain, c)
	if b.ip != "" {
		sym.Assert(ok && got == b.ip, "the chain returns its first success")
	} else {
		sym.Cover("chain falls through to the next resolver")
		sym.Assert(ok && got == "192.0.2.9", "the chain falls through to the next resolver")
	}
	// a chain whose resolvers all fail returns an error
	c2 := newIPContext("X-Real-Ip", []string{b.xff}, "not-an-address")
	_, ok = resolveStr(clientip.NewChain(single, clientip.NewRemoteAddr()), c2)
	sym.Assert(ok == (b.ip != ""), "the chain fails only when every resolver fails")
}

// HarnessC18Prefix: nothing an attacker places to the left of the selected entry changes the result of
// the rightmost strategies.
func HarnessC18Prefix() {
	n := sym.Param("n") // attacker bytes
	useFwd := sym.Param("fwd") == 1
	headerName := "X-Forwarded-For"
	key := clientip.XForwardedForKey
	if useFwd {
		headerName = "Forwarded"
		key = clientip.ForwardedKey
	}
	k := 1 + sym.Choose("k", 2)
	suffix := ""
	for i := 0; i < k; i++ {
		e := ipCatalogue[sym.Choose("e"+string(rune('0'+i)), len(ipCatalogue))]
		item := e.xff
		if useFwd {
			item = e.fwd
		}
		if i > 0 {
			suffix += ", "
		}
		suffix += item
	}
	attack := sym.String("attack", n)
	var r fox.ClientIPResolver
	switch sym.Choose("strategy", 3) {
	case 0:
		x, err := clientip.NewRightmostTrustedCount(key, uint(1+sym.Choose("count", 2)))
		sym.Assert(err == nil, "resolver created")
		r = x
	case 1:
		x, err := clientip.NewRightmostNonPrivate(key)
		sym.Assert(err == nil, "resolver created")
		r = x
	case 2:
		x, err := clientip.NewRightmostTrustedRange(key, trustedRanges(mustRanges("10.0.0.0/8", "127.0.0.1", "fe80::/10")))
		sym.Assert(err == nil, "resolver created")
		r = x
	}
	base, okBase := resolveStr(r, newIPContext(headerName, []string{suffix}, "192.0.2.9:4000"))
	if !okBase {
		return // the strategy's selection does not exist in the trusted suffix
	}
	sym.Cover("selection exists in the suffix")
	layout := sym.Choose("layout", 2)
	var lines []string
	if layout == 0 {
		lines = []string{attack + "," + suffix} // same header instance, comma separated
	} else {
		lines = []string{attack, suffix} // an earlier header instance
	}
	got, ok := resolveStr(r, newIPContext(headerName, lines, "192.0.2.9:4000"))
	sym.Assert(ok && got == base, "the result of a rightmost strategy is unaffected by anything placed to the left of the selected entry")
}

// HarnessC18Crash: no resolver panics on any header content; each returns an address or an error.
func HarnessC18Crash() {
	n := sym.Param("n")
	useFwd := sym.Param("fwd") == 1
	headerName := "X-Forwarded-For"
	key := clientip.XForwardedForKey
	if useFwd {
		headerName = "Forwarded"
		key = clientip.ForwardedKey
	}
	junk := sym.String("junk", n)
	lines := []string{junk}
	if sym.Bool("second") {
		lines = append(lines, "10.0.0.1")
	}
	c := newIPContext(headerName, lines, "192.0.2.9:4000")
	r0, _ := clientip.NewRightmostTrustedCount(key, 1)
	r1, _ := clientip.NewRightmostNonPrivate(key)
	r2, _ := clientip.NewRightmostTrustedRange(key, trustedRanges(mustRanges("10.0.0.0/8")))
	r3, _ := clientip.NewLeftmostNonPrivate(key, 2)
	check := func(r fox.ClientIPResolver, c fox.Context) {
		ip, err := r.ClientIP(c)
		sym.Assert((ip == nil) != (err == nil), "a resolver returns an address or an error, never both or neither")
	}
	for _, r := range []fox.ClientIPResolver{r0, r1, r2, r3} {
		check(r, c)
	}
	single, _ := clientip.NewSingleIPHeader("X-Real-Ip")
	check(single, newIPContext("X-Real-Ip", []string{junk}, junk))
	check(clientip.NewRemoteAddr(), newIPContext("X-Real-Ip", nil, junk))
	sym.Cover("arbitrary header content survived every resolver")
}
