package harness

import (
	"bufio"
	"errors"
	"io"
	"net"
	"net/http"
	"net/url"
	"time"

	"github.com/tigerwill90/fox"
	"verif/harness/sym"
)

// ---------------------------------------------------------------------------------------------
// underlying writer stubs with ghost counters (R-rw)

var errUnderlying = errors.New("underlying write failed")
var errSource = errors.New("source read failed")

// script is the pre-drawn nondeterminism of the underlying writer, shared by capability variants.
type script struct {
	accept []int  // per body-write call: how many bytes the underlying writer accepts (<= offered)
	fail   []bool // per body-write call: whether it returns an error
	pos    int
}

type ghost struct {
	finals     []int // final status codes forwarded explicitly or implicitly, in order
	infos      int   // informational headers forwarded
	accepted   int   // body bytes accepted
	body       []byte
	lateHeader bool // a final header forwarded after body bytes were accepted
	flushes    int
	sc         *script
	hdr        http.Header
}

func isInformational(code int) bool { return code >= 100 && code <= 199 && code != 101 }

func (g *ghost) Header() http.Header { return g.hdr }

func (g *ghost) WriteHeader(code int) {
	if isInformational(code) {
		g.infos++
		return
	}
	if g.accepted > 0 {
		g.lateHeader = true
	}
	g.finals = append(g.finals, code)
}

func (g *ghost) implicitHeader() {
	if len(g.finals) == 0 {
		g.finals = append(g.finals, 200)
	}
}

// take consumes one scripted outcome for a body write offering n bytes.
func (g *ghost) take(n int) (int, error) {
	m, fail := n, false
	if g.sc.pos < len(g.sc.accept) {
		// each writer call of the harness scripts at most one underlying body write
		m, fail = g.sc.accept[g.sc.pos], g.sc.fail[g.sc.pos]
		g.sc.pos = len(g.sc.accept)
	}
	if m > n {
		m = n
	}
	var err error
	if fail {
		err = errUnderlying
	}
	return m, err
}

func (g *ghost) Write(p []byte) (int, error) {
	g.implicitHeader()
	m, err := g.take(len(p))
	g.accepted += m
	g.body = append(g.body, p[:m]...)
	return m, err
}

// plainW offers nothing but http.ResponseWriter.
type plainW struct{ g *ghost }

func (w plainW) Header() http.Header         { return w.g.Header() }
func (w plainW) WriteHeader(code int)        { w.g.WriteHeader(code) }
func (w plainW) Write(p []byte) (int, error) { return w.g.Write(p) }

// richW additionally offers io.ReaderFrom, Flusher (FlushError), Pusher, Hijacker, deadlines, full duplex.
type richW struct {
	g     *ghost
	calls *capCalls
}

type capCalls struct {
	push, hijack, rdl, wdl, duplex int
}

func (w richW) Header() http.Header         { return w.g.Header() }
func (w richW) WriteHeader(code int)        { w.g.WriteHeader(code) }
func (w richW) Write(p []byte) (int, error) { return w.g.Write(p) }

// ReadFrom behaves like net/http's: nothing at all for an empty source, the implicit 200 with the
// first byte it forwards.
func (w richW) ReadFrom(src io.Reader) (int64, error) {
	var total int64
	buf := make([]byte, 8)
	for {
		n, rerr := src.Read(buf)
		if n > 0 {
			// the implicit 200 goes out with the first byte that is accepted
			m, werr := w.g.take(n)
			if m > 0 {
				w.g.implicitHeader()
			}
			w.g.accepted += m
			w.g.body = append(w.g.body, buf[:m]...)
			total += int64(m)
			if werr != nil {
				return total, werr
			}
			if m < n {
				return total, io.ErrShortWrite
			}
		}
		if rerr == io.EOF {
			return total, nil
		}
		if rerr != nil {
			return total, rerr
		}
	}
}

func (w richW) FlushError() error {
	w.g.implicitHeader()
	w.g.flushes++
	return nil
}
func (w richW) Push(target string, opts *http.PushOptions) error { w.calls.push++; return nil }
func (w richW) Hijack() (net.Conn, *bufio.ReadWriter, error) {
	w.calls.hijack++
	return nil, nil, nil
}
func (w richW) SetReadDeadline(time.Time) error  { w.calls.rdl++; return nil }
func (w richW) SetWriteDeadline(time.Time) error { w.calls.wdl++; return nil }
func (w richW) EnableFullDuplex() error          { w.calls.duplex++; return nil }

// flushW offers only the classic http.Flusher.
type flushW struct{ g *ghost }

func (w flushW) Header() http.Header         { return w.g.Header() }
func (w flushW) WriteHeader(code int)        { w.g.WriteHeader(code) }
func (w flushW) Write(p []byte) (int, error) { return w.g.Write(p) }
func (w flushW) Flush()                      { w.g.implicitHeader(); w.g.flushes++ }

// source yields total bytes, then io.EOF or an error.
type source struct {
	data []byte
	fail bool
	done bool
}

func (s *source) Read(p []byte) (int, error) {
	if len(s.data) > 0 {
		n := copy(p, s.data)
		s.data = s.data[n:]
		return n, nil
	}
	if s.fail {
		return 0, errSource
	}
	return 0, io.EOF
}

// ---------------------------------------------------------------------------------------------

const (
	wcWriteHeader = iota
	wcWrite
	wcWriteString
	wcReadFrom
	wcFlush
	nWriterCalls
)

type c14State struct {
	r       *fox.Router
	handler func(c fox.Context)
}

func SetupC14Seq() any {
	st := &c14State{}
	r, err := fox.New()
	if err != nil {
		panic(err)
	}
	if _, err := r.Handle("GET", "/w", func(c fox.Context) { st.handler(c) }); err != nil {
		panic(err)
	}
	st.r = r
	return st
}

func newUnderlying(variant int, g *ghost, calls *capCalls) http.ResponseWriter {
	switch variant {
	case 0:
		return plainW{g}
	case 1:
		return richW{g, calls}
	}
	return flushW{g}
}

// checkRecorder compares the recorder's answers with the ghost state of the underlying writer.
func checkRecorder(w fox.ResponseWriter, g *ghost, who string) {
	wantStatus := 200
	if len(g.finals) > 0 {
		wantStatus = g.finals[0]
	}
	sym.Assert(w.Status() == wantStatus, who+": Status() is the first final status forwarded (200 if none)")
	sym.Assert(w.Size() == g.accepted, who+": Size() is the number of body bytes the underlying writer accepted")
	sym.Assert(w.Written() == (len(g.finals) > 0 || g.accepted > 0), who+": Written() iff a final header was forwarded or a body byte accepted")
	sym.Assert(len(g.finals) <= 1, who+": at most one final status is ever forwarded")
	sym.Assert(!g.lateHeader, who+": no final status forwarded after accepted body bytes")
}

// HarnessC14Seq: k calls on the Context's ResponseWriter against ghost counters in the underlying writer.
func HarnessC14Seq(st any) {
	runWriterSeq(st.(*c14State), sym.Param("k"), sym.Param("variant"))
}

type seqResult struct {
	status, size int
	written      bool
	corner       bool // a non-empty ReadFrom of which the underlying writer accepted nothing
	flushed      bool
}

// HarnessC14AB: Status/Size/Written are the same whether or not the underlying writer offers the fast paths.
func HarnessC14AB(st any) {
	s := st.(*c14State)
	k := sym.Param("k")
	a := runWriterSeq(s, k, 0)
	b := runWriterSeq(s, k, 1)
	if a.corner || b.corner {
		// the implicit header of a ReadFrom that forwards no byte is only visible to the underlying writer
		sym.Cover("A/B corner skipped")
		return
	}
	if a.flushed {
		return // FlushError is refused by a writer without flusher: the sequences legitimately differ
	}
	sym.Cover("A/B compared")
	sym.Assert(a.status == b.status && a.size == b.size && a.written == b.written, "Status/Size/Written identical with and without ReaderFrom/Flusher support")
}

func SetupC14AB() any { return SetupC14Seq() }

func runWriterSeq(s *c14State, k, variant int) (out seqResult) {
	// variant: 0 plain, 1 rich (ReaderFrom, FlushError, ...), 2 classic Flusher
	sc := &script{}
	g := &ghost{sc: sc, hdr: http.Header{}}
	calls := &capCalls{}
	payload := []byte("abc")
	var sent []byte // bytes offered in order (to check forwarding order)

	// the recorder is recycled with its context: earlier requests that wrote, flushed and took over their
	// connection must leave nothing behind (three of them, so that whichever pooled context comes next has served one)
	s.handler = func(c fox.Context) {
		w := c.Writer()
		w.WriteHeader(http.StatusAccepted)
		_, _ = w.Write([]byte("earlier"))
		_ = w.FlushError()
		_, _, _ = w.Hijack()
	}
	for n := 0; n < 3; n++ {
		s.r.ServeHTTP(richW{&ghost{sc: &script{}, hdr: http.Header{}}, &capCalls{}}, &http.Request{Method: "GET", URL: &url.URL{Path: "/w"}})
	}

	s.handler = func(c fox.Context) {
		w := c.Writer()
		checkRecorder(w, g, "fresh")
		for step := 0; step < k; step++ {
			kind := sym.Choose("call"+string(rune('0'+step)), nWriterCalls)
			switch kind {
			case wcWriteHeader:
				code := sym.Int("code"+string(rune('0'+step)), 100, 999)
				w.WriteHeader(code)
				if isInformational(code) {
					sym.Cover("informational header")
				}
			case wcWrite, wcWriteString:
				n := sym.Choose("len"+string(rune('0'+step)), 4)
				m := sym.Int("acc"+string(rune('0'+step)), 0, n)
				fail := sym.Bool("fail" + string(rune('0'+step)))
				sc.pos = len(sc.accept)
				sc.accept = append(sc.accept, m)
				sc.fail = append(sc.fail, fail)
				var got int
				var err error
				if kind == wcWrite {
					got, err = w.Write(payload[:n])
				} else {
					got, err = w.WriteString(string(payload[:n]))
				}
				sent = append(sent, payload[:m]...)
				sym.Assert(got == m, "Write reports the bytes the underlying writer accepted")
				sym.Assert((err != nil) == fail || (err != nil && m < n), "Write reports the underlying error")
				if m < n {
					sym.Cover("short write")
				}
			case wcReadFrom:
				total := sym.Choose("src"+string(rune('0'+step)), 4)
				srcFail := sym.Bool("srcfail" + string(rune('0'+step)))
				m := sym.Int("acc"+string(rune('0'+step)), 0, total)
				fail := sym.Bool("fail" + string(rune('0'+step)))
				sc.pos = len(sc.accept)
				sc.accept = append(sc.accept, m)
				sc.fail = append(sc.fail, fail)
				before := g.accepted
				n, _ := w.ReadFrom(&source{data: append([]byte(nil), payload[:total]...), fail: srcFail})
				sent = append(sent, payload[:g.accepted-before]...)
				sym.Assert(int(n) == g.accepted-before, "ReadFrom reports the bytes the underlying writer accepted")
				sym.Cover("ReadFrom")
				if total > 0 && g.accepted == before {
					out.corner = true
				}
				if total == 0 {
					sym.Cover("ReadFrom of an empty source")
				}
			case wcFlush:
				out.flushed = true
				err := w.FlushError()
				if variant == 0 {
					sym.Assert(errors.Is(err, http.ErrNotSupported), "FlushError without an underlying flusher matches http.ErrNotSupported")
				} else {
					sym.Assert(err == nil, "FlushError delegates to the underlying flusher")
				}
			}
			checkRecorder(w, g, "after call")
		}
		sym.Assert(string(g.body) == string(sent), "every body byte is forwarded in order")
		out.status, out.size, out.written = w.Status(), w.Size(), w.Written()
	}
	req := &http.Request{Method: "GET", URL: &url.URL{Path: "/w"}}
	s.r.ServeHTTP(newUnderlying(variant, g, calls), req)
	return out
}
