package harness

import (
	"net/http"
	"net/url"

	"github.com/tigerwill90/fox"
	"verif/harness/sym"
)

type obsEntry struct {
	method, pattern string
	route           *fox.Route
}

type observation struct {
	all     []obsEntry
	has     []bool
	routes  []*fox.Route
	length  int
	lkRoute *fox.Route
	lkTsr   bool
	lkPs    []kv
	prefixN []int
}

type snapshotView struct {
	it  fox.Iter
	txn *fox.Txn // nil for a bare Iter
}

// observe reads everything observable through a snapshot.
func observe(v snapshotView, keys []mentry, req *http.Request) observation {
	var o observation
	for m, r := range v.it.All() {
		o.all = append(o.all, obsEntry{m, r.Pattern(), r})
	}
	for _, k := range keys {
		n := 0
		for range v.it.Prefix(seqOf(k.method), k.pattern) {
			n++
		}
		o.prefixN = append(o.prefixN, n)
		var rt *fox.Route
		for _, r := range v.it.Routes(seqOf(k.method), k.pattern) {
			rt = r
		}
		o.routes = append(o.routes, rt)
	}
	if v.txn != nil {
		o.length = v.txn.Len()
		for _, k := range keys {
			o.has = append(o.has, v.txn.Has(k.method, k.pattern))
			o.routes = append(o.routes, v.txn.Route(k.method, k.pattern))
		}
		rte, cc, tsr := v.txn.Lookup(nil, req)
		o.lkRoute, o.lkTsr = rte, tsr
		if cc != nil {
			o.lkPs = collectParams(cc)
			cc.Close()
		}
	} else {
		for _, r := range v.it.Reverse(seqOf(req.Method), req.Host, req.URL.Path) {
			o.lkRoute = r
		}
	}
	return o
}

func sameObservation(a, b observation) bool {
	if len(a.all) != len(b.all) || len(a.has) != len(b.has) || len(a.routes) != len(b.routes) || a.length != b.length {
		return false
	}
	for i := range a.all {
		if a.all[i] != b.all[i] {
			return false
		}
	}
	for i := range a.has {
		if a.has[i] != b.has[i] {
			return false
		}
	}
	for i := range a.routes {
		if a.routes[i] != b.routes[i] {
			return false
		}
	}
	for i := range a.prefixN {
		if a.prefixN[i] != b.prefixN[i] {
			return false
		}
	}
	return a.lkRoute == b.lkRoute && a.lkTsr == b.lkTsr && sameParams(a.lkPs, b.lkPs)
}

func SetupC03Snapshot() any { return SetupC02History() }

const (
	snapIter = iota
	snapReadTxn
	snapWriteTxnSnapshot0 // Txn.Snapshot() of a write txn before any write
	snapWriteTxnSnapshot1 // ... after one write
	snapWriteTxnIter1     // Txn.Iter() of a write txn after one write
	nSnapKinds
)

// HarnessC03Snapshot: a snapshot observes the same state before and after any later write.
func HarnessC03Snapshot(st any) {
	s := st.(*c02State)
	kindSnap := sym.Param("snap")
	k := sym.Param("k")
	np := sym.Param("pool")
	model := s.model.clone()

	// the request probed through the snapshot
	lp := sym.Param("lp")
	path := "/" + sym.String("path", lp-1)
	sym.Assume(!hasEmptySegment(path))
	req := &http.Request{Method: "GET", Host: "a.b", URL: &url.URL{Path: path}}

	var view snapshotView
	var wtxn *fox.Txn // the write transaction the snapshot was taken from (if any)
	var w writeAPI = s.r
	var probes []mentry
	switch kindSnap {
	case snapIter:
		view = snapshotView{it: s.r.Iter()}
	case snapReadTxn:
		t := s.r.Txn(false)
		view = snapshotView{it: t.Iter(), txn: t}
	case snapWriteTxnSnapshot0, snapWriteTxnSnapshot1, snapWriteTxnIter1:
		wtxn = s.r.Txn(true)
		w = wtxn
		if kindSnap != snapWriteTxnSnapshot0 {
			p0 := c02Pool[sym.Choose("p_pre", np)]
			kind0 := sym.Choose("kind_pre", opDelete+1)
			probes = append(probes, mentry{method: "GET", pattern: p0})
			if !applyOp(s.r, w, wtxn, model, kind0, "GET", p0) {
				wtxn.Abort()
				return
			}
		}
		if kindSnap == snapWriteTxnIter1 {
			view = snapshotView{it: wtxn.Iter()}
		} else {
			t := wtxn.Snapshot()
			view = snapshotView{it: t.Iter(), txn: t}
		}
	}
	snapModel := model.clone()
	keys := append([]mentry(nil), snapModel.ents...)
	for i := 0; i < np; i++ {
		keys = append(keys, mentry{method: "GET", pattern: c02Pool[i]})
	}
	o1 := observe(view, keys, req)
	// the snapshot must show exactly the state at the time it was taken
	sym.Assert(len(o1.all) == len(snapModel.ents), "snapshot shows the state at the time it was taken")
	if view.txn != nil {
		sym.Freeze(view.txn)
	}
	sym.Freeze(view.it)

	// later writes
	via := 0
	if wtxn == nil {
		via = sym.Choose("via", 3) // 0 direct, 1 new txn committed, 2 new txn aborted
		if via > 0 {
			wtxn = s.r.Txn(true)
			w = wtxn
		}
	} else {
		via = 1 + sym.Choose("end", 2) // same txn, then committed or aborted
	}
	for step := 0; step < k; step++ {
		kind := sym.Choose("kind"+string(rune('0'+step)), nOps)
		if via == 0 && (kind == opTruncateAll || kind == opTruncateMethod) {
			sym.Assume(false)
		}
		pattern := c02Pool[sym.ParamOr("poolfrom", 0)+sym.Choose("p"+string(rune('0'+step)), np)]
		probes = append(probes, mentry{method: "GET", pattern: pattern})
		if !applyOp(s.r, w, wtxn, model, kind, "GET", pattern) {
			if wtxn != nil {
				wtxn.Abort()
			}
			return
		}
		o2 := observe(view, keys, req)
		sym.Assert(sameObservation(o1, o2), "snapshot unchanged by a later write")
	}
	switch via {
	case 1:
		wtxn.Commit()
		sym.Cover("commit after snapshot")
	case 2:
		wtxn.Abort()
		model = nil
		sym.Cover("abort after snapshot")
	}
	o3 := observe(view, keys, req)
	sym.Assert(sameObservation(o1, o3), "snapshot unchanged by commit/abort")
	sym.Unfreeze()
	// the writer's view is unaffected by the snapshot's existence
	if model != nil {
		checkObs(s.r, model, probes, "router after writes made while a snapshot existed")
	}
	if view.txn != nil {
		view.txn.Abort()
	}
}
