package harness

import (
	"net"
	"net/http"
	"net/url"

	"github.com/tigerwill90/fox"
	"github.com/tigerwill90/fox/clientip"
	"verif/harness/sym"
)

// ---------------------------------------------------------------------------------------------
// R-ip (a): addresses that are NOT globally routable, as prefix ranges (IANA IPv4/IPv6 special-purpose
// registries, multicast and reserved space). Independent of fox's list.

type cidr struct {
	ip   []byte
	bits int
}

func c4(a, b, c, d byte, bits int) cidr { return cidr{[]byte{a, b, c, d}, bits} }

var nonGlobalV4 = []cidr{
	c4(0, 0, 0, 0, 8),       // "this network" RFC 791
	c4(10, 0, 0, 0, 8),      // private RFC 1918
	c4(100, 64, 0, 0, 10),   // shared address space RFC 6598
	c4(127, 0, 0, 0, 8),     // loopback
	c4(169, 254, 0, 0, 16),  // link local
	c4(172, 16, 0, 0, 12),   // private
	c4(192, 0, 0, 0, 24),    // IETF protocol assignments
	c4(192, 0, 2, 0, 24),    // TEST-NET-1
	c4(192, 88, 99, 0, 24),  // deprecated 6to4 relay anycast
	c4(192, 168, 0, 0, 16),  // private
	c4(198, 18, 0, 0, 15),   // benchmarking RFC 2544
	c4(198, 51, 100, 0, 24), // TEST-NET-2
	c4(203, 0, 113, 0, 24),  // TEST-NET-3
	c4(224, 0, 0, 0, 4),     // multicast
	c4(240, 0, 0, 0, 4),     // reserved, incl. limited broadcast
}

func c6(bits int, bs ...byte) cidr {
	ip := make([]byte, 16)
	copy(ip, bs)
	return cidr{ip, bits}
}

var nonGlobalV6 = []cidr{
	c6(128), // :: unspecified
	c6(128, 0, 0, 0, 0, 0, 0, 0, 0, 0, 0, 0, 0, 0, 0, 0, 1), // ::1 loopback
	c6(64, 0x01, 0x00),             // 100::/64 discard only
	c6(23, 0x20, 0x01),             // 2001::/23 IETF protocol assignments (incl. TEREDO, benchmarking)
	c6(32, 0x20, 0x01, 0x0d, 0xb8), // 2001:db8::/32 documentation
	c6(16, 0x20, 0x02),             // 2002::/16 6to4 (deprecated)
	c6(7, 0xfc),                    // fc00::/7 unique local
	c6(10, 0xfe, 0x80),             // fe80::/10 link local
	c6(8, 0xff),                    // ff00::/8 multicast
}

func inCIDR(ip []byte, c cidr) bool {
	if len(ip) != len(c.ip) {
		return false
	}
	full := c.bits / 8
	for i := 0; i < full; i++ {
		if ip[i] != c.ip[i] {
			return false
		}
	}
	if rem := c.bits % 8; rem != 0 {
		mask := byte(0xff) << (8 - rem)
		if ip[full]&mask != c.ip[full]&mask {
			return false
		}
	}
	return true
}

func inAny(ip []byte, cs []cidr) bool {
	for _, c := range cs {
		if inCIDR(ip, c) {
			return true
		}
	}
	return false
}

func containedIn(ip net.IP, ranges []net.IPNet) bool {
	for i := range ranges {
		if ranges[i].Contains(ip) {
			return true
		}
	}
	return false
}

// HarnessC18Ranges: every address inside the ranges trusted / excluded by default is not globally routable.
func HarnessC18Ranges() {
	v6 := sym.Param("v6") == 1
	group := sym.Param("group") // 0 default, 1 private option, 2 loopback option, 3 link-local option
	var ranges []net.IPNet
	switch group {
	case 0:
		ranges = clientip.VerifDefaultRanges()
	case 1:
		ranges, _, _ = clientip.VerifOptionRanges()
	case 2:
		_, ranges, _ = clientip.VerifOptionRanges()
	case 3:
		_, _, ranges = clientip.VerifOptionRanges()
	}
	if !v6 {
		raw := sym.Bytes("ip4", 4)
		ip := net.IP(raw)
		if containedIn(ip, ranges) {
			sym.Cover("IPv4 address inside the default ranges")
			sym.Assert(inAny(raw, nonGlobalV4), "an address trusted/excluded by default must not be globally routable (IPv4)")
		}
		return
	}
	raw := sym.Bytes("ip6", 16)
	ip := net.IP(raw)
	if containedIn(ip, ranges) {
		if v4 := ip.To4(); v4 != nil {
			sym.Cover("IPv4-mapped address inside the default ranges")
			sym.Assert(inAny(v4, nonGlobalV4), "an address trusted/excluded by default must not be globally routable (IPv4-mapped)")
			return
		}
		sym.Cover("IPv6 address inside the default ranges")
		sym.Assert(inAny(raw, nonGlobalV6), "an address trusted/excluded by default must not be globally routable (IPv6)")
	}
}

var _ = http.MethodGet
var _ = url.URL{}
var _ fox.Context
